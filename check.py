#!/venv/bin/python
"""Launcher: imports sim.main once (never run sim modules with -m: that loads them twice)."""
import os
import sys

HERE = os.path.dirname(os.path.abspath(__file__))


def _reexec_if_needed():
    want = {
        "PYTHONHASHSEED": "0",
        "PYTHONDONTWRITEBYTECODE": "1",
        "MPLBACKEND": "Agg",
        "OMP_NUM_THREADS": "1",
        "OPENBLAS_NUM_THREADS": "1",
        "SHAPEPY_VERIF": "1",
    }
    src = os.environ.get("SHAPEPY_SRC", "/repo/src")
    env = dict(os.environ)
    changed = False
    for k, v in want.items():
        if env.get(k) != v:
            env[k] = v
            changed = True
    pp = env.get("PYTHONPATH", "")
    if not pp.split(os.pathsep)[0:1] == [src]:
        env["PYTHONPATH"] = src + (os.pathsep + pp if pp else "")
        changed = True
    if changed and env.get("SHAPEPY_VERIF_REEXEC") != "1":
        env["SHAPEPY_VERIF_REEXEC"] = "1"
        os.execve(sys.executable, [sys.executable, "-W", "ignore", os.path.abspath(__file__)] + sys.argv[1:], env)


if __name__ == "__main__":
    _reexec_if_needed()
    sys.path.insert(0, HERE)
    from sim import main

    sys.exit(main.main())
