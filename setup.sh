#!/bin/sh
# Nothing to build: the framework is pure Python run by /venv/bin/python (3.12, sys.monitoring).
set -e
cd "$(dirname "$0")"
mkdir -p evidence replays
/venv/bin/python -c "import sys; assert sys.version_info >= (3, 12), sys.version; import numpy, pynurbs, matplotlib"
echo "setup ok"
