#!/bin/sh
# ./soak11.sh <first seed> <last seed>  -- C11 quick over seeds, no evidence written
cd "$(dirname "$0")"
export VERIF_NO_EVIDENCE=1
for s in $(seq "$1" "$2"); do
  ./check C11 --tier quick --seed "$s" 2>&1 | grep -E "VIOLATION|HARNESS|KNOWN|^  |^C[0-9]+:" | sed "s/^/[seed $s] /"
done
echo SOAK-DONE
