#!/bin/sh
# ./thorough_all.sh <seed>  -- every thorough check once (background sweeps; no evidence written)
cd "$(dirname "$0")"
export VERIF_NO_EVIDENCE=1
for p in C09 C08 C10 C11; do
  ./check "$p" --tier thorough --seed "$1" 2>&1 | grep -E "VIOLATION|HARNESS|KNOWN|^  |^C[0-9]+:" | sed "s/^/[thorough $p seed $1] /"
done
echo THOROUGH-DONE
