#!/venv/bin/python
"""Print the detection tables (mutants, independently written changes) as markdown."""
import glob
import json
import os

VERIF = os.path.dirname(os.path.dirname(os.path.abspath(__file__)))
print("| change | property | needs, in the author's words | suite with change | demo with / without | checks run -> result |")
print("|---|---|---|---|---|---|")
for f in sorted(glob.glob(os.path.join(VERIF, "seeded", "*", "meta.json"))):
    m = json.load(open(f))
    notes = m.get("needs_to_manifest", "").replace("\n", " ")
    notes = notes[:230] + ("..." if len(notes) > 230 else "")
    ran = "; ".join(f"{r['check'].split()[1]}: exit {r['exit']}" + (f" ({r['first_detail'][:90]}...)" if r["exit"] == 1 else "")
                    for r in m["ran"])
    print(f"| {m['id']} | {m['property']} | {notes} | {m.get('suite_with_change','')} | "
          f"{m.get('demo_with_change_exit')} / {m.get('demo_without_change_exit')} | {ran} |")
print()
p = os.path.join(VERIF, "selftest", "last_mutant_run.json")
if os.path.exists(p):
    print("| mutant | check | result | wall s |")
    print("|---|---|---|---|")
    for r in json.load(open(p)):
        print(f"| {r['id']} | {r['property']} | {r['status']} | {r['wall_s']} |")
