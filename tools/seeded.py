#!/venv/bin/python
"""Evaluate an independently written breaking change against the checks.

tools/seeded.py <id> <dir with patch.diff demo.py notes.txt> <property> [checks to run ...]

1. scratch worktree of /repo HEAD, patch applied: the repository's suite must still pass,
   demo.py must fail with the patch and pass without it;
2. the named checks (default: the property's own quick check) run against the patched
   scratch tree through SHAPEPY_SRC; exit codes and first VIOLATION lines are recorded;
3. everything is written to /verif/seeded/<id>/ (patch.diff, demo.py, notes.txt, meta.json),
   the scratch worktree is removed."""
import json
import os
import shutil
import subprocess
import sys
import tempfile
import time

VERIF = os.path.dirname(os.path.dirname(os.path.abspath(__file__)))
PY = "/venv/bin/python"


def sh(cmd, env=None, cwd=None, timeout=3600):
    p = subprocess.run(cmd, shell=isinstance(cmd, str), env=env, cwd=cwd, capture_output=True, text=True,
                       timeout=timeout)
    return p.returncode, p.stdout + p.stderr


def main():
    sid, src, prop = sys.argv[1], sys.argv[2], sys.argv[3]
    checks = sys.argv[4:] or [prop]
    out = os.path.join(VERIF, "seeded", sid)
    os.makedirs(out, exist_ok=True)
    for name in ("patch.diff", "demo.py", "notes.txt"):
        if os.path.exists(os.path.join(src, name)) and os.path.abspath(src) != os.path.abspath(out):
            shutil.copy(os.path.join(src, name), os.path.join(out, name))
    wt = tempfile.mkdtemp(prefix="seedwt-")
    os.rmdir(wt)
    meta = {"id": sid, "property": prop, "ran": [], "repo_head": sh("git -C /repo rev-parse --short HEAD")[1].strip()}
    try:
        code, o = sh(f"git -C /repo worktree add -q --detach {wt} HEAD")
        assert code == 0, o
        env = dict(os.environ, PYTHONPATH=os.path.join(wt, "src"), PYTHONDONTWRITEBYTECODE="1", MPLBACKEND="Agg")
        demo = os.path.join(out, "demo.py")
        code0, o0 = sh([PY, "-W", "ignore", demo], env=env, cwd=wt)
        meta["demo_without_change_exit"] = code0
        code, o = sh(f"git -C {wt} apply {os.path.join(out, 'patch.diff')}")
        assert code == 0, "patch does not apply: " + o
        code1, o1 = sh([PY, "-W", "ignore", demo], env=env, cwd=wt)
        meta["demo_with_change_exit"] = code1
        meta["demo_with_change_output"] = o1[-400:]
        t0 = time.time()
        code, o = sh([PY, "-m", "pytest", "-q", "-p", "no:cacheprovider", "--timeout=900", "tests"], env=env, cwd=wt)
        tail = [l for l in o.splitlines() if "passed" in l or "failed" in l or "error" in l]
        meta["suite_with_change"] = tail[-1] if tail else o[-200:]
        meta["suite_exit"] = code
        for chk in checks:
            cenv = dict(os.environ, SHAPEPY_SRC=os.path.join(wt, "src"), VERIF_NO_EVIDENCE="1",
                        VERIF_REPLAY_DIR=os.path.join(out, "replays"))
            cenv.pop("SHAPEPY_VERIF_REEXEC", None)
            cenv.pop("PYTHONPATH", None)
            t1 = time.time()
            code, o = sh([os.path.join(VERIF, "check"), chk, "--tier", "quick"], env=cenv, cwd=VERIF)
            viol = [l for l in o.splitlines() if l.startswith("VIOLATION")]
            detail = [l.strip() for l in o.splitlines() if l.startswith("  ") and "replay in" not in l]
            meta["ran"].append({"check": f"./check {chk} --tier quick (SHAPEPY_SRC=patched scratch tree)",
                                "exit": code, "violation_lines": len(viol),
                                "first_detail": detail[0][:400] if detail else "",
                                "summary": o.strip().splitlines()[-1][:300] if o.strip() else "",
                                "wall_s": round(time.time() - t1, 1)})
        meta["detected_by"] = [r["check"].split()[1] for r in meta["ran"] if r["exit"] == 1 and r["violation_lines"]]
    finally:
        sh(f"git -C /repo worktree remove --force {wt}")
        shutil.rmtree(wt, ignore_errors=True)
    # replay files written under seeded/<id>/replays are kept small: only the first
    rdir = os.path.join(out, "replays")
    if os.path.isdir(rdir):
        files = sorted(os.listdir(rdir))
        for f in files[1:]:
            os.remove(os.path.join(rdir, f))
    notes = open(os.path.join(out, "notes.txt")).read() if os.path.exists(os.path.join(out, "notes.txt")) else ""
    meta["needs_to_manifest"] = notes.strip()
    json.dump(meta, open(os.path.join(out, "meta.json"), "w"), indent=1)
    print(json.dumps({k: meta[k] for k in ("id", "demo_without_change_exit", "demo_with_change_exit",
                                           "suite_with_change", "detected_by")}, indent=1))
    for r in meta["ran"]:
        print(r["check"], "exit", r["exit"], r["first_detail"][:200])


if __name__ == "__main__":
    main()
