#!/bin/sh
# ./soak.sh <first seed> <last seed> [props...]   -- many seeds at quick size, no evidence written
cd "$(dirname "$0")"
first=$1; last=$2; shift 2
props=${*:-"C08 C09 C10"}
export VERIF_NO_EVIDENCE=1
for s in $(seq "$first" "$last"); do
  for p in $props; do
    ./check "$p" --tier quick --seed "$s" 2>&1 | grep -E "VIOLATION|HARNESS|KNOWN|^  run|^C[0-9]+:" | sed "s/^/[seed $s] /"
  done
done
echo SOAK-DONE
