"""The history simulator (DESIGN 2): a heap of live shapepy objects next to their model
values, one recorded step at a time, with the frame invariant, the affine-model oracle
and the T1 / T2 / re-ask twins evaluated as the run proceeds."""
from __future__ import annotations

import copy as _copy
import hashlib
import json
import math
import os
import signal
from fractions import Fraction

from shapepy import JordanCurve, Primitive
from shapepy.polygon import Point2D

from . import faults, gen, kernel, model, ops

HEAP_MAX = 8
DEFAULT_BUDGET = 60_000_000  # PY_START events per library call (hang verdict)


# The library compares with absolute tolerances (1e-9 on points, 1e-6 on areas, 1e-9 in the
# knot removal behind clean()): beyond coordinates of this size float rounding alone exceeds
# them (known finding KF3).  Rebuilt-twin, re-ask and inverse-pair comparisons are evaluated
# below it; deep-copy twins, the frame invariant and the affine model apply at every size.
LARGE = 500.0
T2_FLOAT_BINARY = os.environ.get("VERIF_T2_FLOAT", "1") == "1"
T2_CURVED_BINARY = os.environ.get("VERIF_T2_CURVED", "0") == "1"
CALL_WALL = 150  # seconds: wall-clock backstop per library call (harness error, never a verdict)


class CallTimeout(BaseException):
    pass


def _on_alarm(signum, frame):
    raise CallTimeout()


signal.signal(signal.SIGALRM, _on_alarm)


class Violation(Exception):
    def __init__(self, invariant, cls, step_index, details):
        super().__init__(f"{invariant} at step {step_index}: {details}")
        self.invariant = invariant
        self.cls = cls
        self.step_index = step_index
        self.details = details


class HarnessError(Exception):
    """Something went wrong outside a library call: never a verdict."""


class Obj:
    __slots__ = ("live", "V", "L", "sane", "born", "base")

    def __init__(self, live, V, L, sane, born):
        self.live = live
        self.V = V
        self.L = L
        self.sane = sane
        self.born = born


def J(x):
    return model.num_to_json(x)


def mutable_ids(obj):
    """ids of the mutable library objects reachable from a heap object (targeting aid
    only: never part of a verdict)."""
    out = set()
    if isinstance(obj, JordanCurve):
        jordans = [obj]
    else:
        jordans = list(getattr(obj, "jordans", ()) or ()) if model.is_defined(obj) else []
    for j in jordans:
        out.add(id(j))
        for seg in j.segments:
            out.add(id(seg))
            for p in seg.ctrlpoints:
                out.add(id(p))
    return out


class Stats:
    def __init__(self):
        self.c = {}

    def inc(self, key, n=1):
        self.c[key] = self.c.get(key, 0) + n

    def merge(self, other):
        for k, v in other.items():
            self.c[k] = self.c.get(k, 0) + v


class World:
    def __init__(self, check_t1=True, check_t2=True, budget=DEFAULT_BUDGET, use_budget=True):
        self.slots = {}
        self.steps = []
        self.answers = {}
        self.log = []
        self.stats = Stats()
        self.states = set()
        self.check_t1 = check_t1
        self.check_t2 = check_t2
        self.budget = budget
        self.use_budget = use_budget
        self.library_calls = 0
        self.events = 0
        self.asked = []  # (step index, step, operand Obj list, operand bits after the call, answer)
        self.globals0 = faults.global_scalars()

    # ------------------------------------------------------------- helpers
    def _call(self, step, objs, idx, who):
        signal.setitimer(signal.ITIMER_REAL, CALL_WALL)
        try:
            return self._call_inner(step, objs, idx, who)
        except CallTimeout:
            raise HarnessError(f"{who} call of {step['op']} at step {idx} exceeded {CALL_WALL}s wall clock")
        finally:
            signal.setitimer(signal.ITIMER_REAL, 0)

    def _call_inner(self, step, objs, idx, who):
        self.library_calls += 1
        fn = lambda: ops.perform(step, objs)  # noqa: E731
        if self.use_budget:
            try:
                outcome, payload, info = faults.run_budgeted(fn, self.budget)
            except faults.SimBudgetExceeded as e:
                raise Violation("hang", "any", idx, f"{who} call of {step['op']}: {e}")
            self.events += info["count"]
            return outcome, payload
        try:
            return "return", fn()
        except Exception as e:  # noqa: BLE001
            return "raise", e

    def _names(self, step):
        names = []
        if "a" in step:
            names.append(step["a"])
        if "b" in step:
            names.append(step["b"])
        for n in names:
            if n not in self.slots:
                raise HarnessError(f"step refers to empty slot {n}")
        return names

    def digest(self):
        h = hashlib.sha256()
        for line in self.log:
            h.update(line.encode())
            h.update(b"\n")
        return h.hexdigest()

    def _logline(self, idx, tag, payload):
        self.log.append(f"{idx}:{tag}:{json.dumps(payload, sort_keys=True)}")

    def _state_tuple(self, step, names, fault=None):
        kinds = tuple(kernel.kind(self.slots[n].V) for n in names)
        nums = tuple(
            ("q" if kernel.is_rational(self.slots[n].V) else "f")
            + ("p" if kernel.is_polygonal(self.slots[n].V) else "c")
            for n in names
        )
        split = tuple(
            (not isinstance(self.slots[n].V, str))
            and model.structure(model.value(self.slots[n].live)) != model.structure(self.slots[n].V)
            for n in names
        )
        self.states.add((step["op"], kinds, nums, split, fault))

    # ------------------------------------------------------------- frame
    def _check_bystanders(self, idx, allowed, what):
        for n, o in self.slots.items():
            if n in allowed:
                continue
            nb = model.bits(o.live)
            if nb != o.L:
                raise Violation(
                    "bystander-changed", "C08", idx,
                    f"slot {n} (not an operand of {what}) changed: "
                    f"{_short(model.value(o.live))} was {_short_bits(o.L)}",
                )

    def _check_operand_region(self, idx, n, what, transformed=False):
        o = self.slots[n]
        nb = model.bits(o.live)
        if nb == o.L:
            return False
        v = model.value(o.live)
        if not transformed and not isinstance(o.L, str) and not isinstance(nb, str):
            why = _vertices_persist(o.L, nb)
            if why:
                raise Violation("operand-changed", "C08", idx,
                                f"slot {n}: {why} after {what} (a non-mutating call may insert "
                                f"vertices into a boundary, never move or drop the ones it had)")
        if kernel.kind(v) != kernel.kind(o.V):
            raise Violation("operand-changed", "C08", idx, f"slot {n} changed kind after {what}")
        if not isinstance(v, str):
            if not model.well_formed_numbers(v):
                raise Violation("operand-changed", "C08", idx,
                                f"slot {n} holds malformed numbers after {what}: {_short(v)}")
            for ch in kernel.chains_of(v):
                if not kernel.closed_by_value(ch):
                    raise Violation("operand-changed", "C08", idx,
                                    f"slot {n}: a boundary chain is no longer closed after {what}")
            if kernel.orientation_signs(v) != kernel.orientation_signs(o.V):
                raise Violation("operand-changed", "C08", idx,
                                f"slot {n}: orientation changed after {what}: "
                                f"{kernel.orientation_signs(v)} was {kernel.orientation_signs(o.V)}")
            ok, why = kernel.same_region(v, o.V)
            if not ok:
                raise Violation("operand-changed", "C08", idx,
                                f"slot {n} no longer denotes its region after {what}: {why}")
        o.L = nb
        self.stats.inc("probe:operand_rerepresented")
        return True

    # ------------------------------------------------------------- execution
    def execute(self, step):
        idx = len(self.steps)
        self.steps.append(step)
        op = step["op"]
        if op == "build":
            self._exec_build(step, idx)
        elif op == "cache_drop":
            n = faults.cache_drop()
            self.stats.inc("fault:cache_drop:fired")
            self.stats.inc("fault:cache_drop:entries", n)
            self._logline(idx, "drop", n > 0)
        elif op in ops.TRANSFORMS:
            self._exec_transform(step, idx)
        elif op in ops.REREPS:
            self._exec_rerep(step, idx)
        elif op == "alias_move":
            self._exec_alias_move(step, idx)
        elif op in ops.NON_MUTATING:
            self._exec_nonmutating(step, idx)
        else:
            raise HarnessError(f"unknown step {op}")
        now = faults.global_scalars()
        if now != self.globals0:
            diff = sorted(k for k in set(now) | set(self.globals0) if now.get(k) != self.globals0.get(k))
            raise Violation("global-state-changed", "C10", idx,
                            f"{op} left module-level configuration changed: " +
                            ", ".join(f"{k}: {self.globals0.get(k)} -> {now.get(k)}" for k in diff[:4]))
        self.stats.inc("steps")
        self.stats.inc(f"step:{op}")

    # .. build
    def _exec_build(self, step, idx):
        what = step["what"]
        live = self._build(step)
        self._finish_build(step, idx, what, live)

    def _build(self, step):
        what = step["what"]
        if what == "value":
            val = model.from_jsonable(step["value"])
            live = model.fresh(val)
        elif what == "square":
            live = Primitive.square(ops.num(step["side"]), ops.pt(step["center"]))
        elif what == "triangle":
            live = Primitive.triangle(ops.num(step["side"]), ops.pt(step["center"]))
        elif what == "regular":
            live = Primitive.regular_polygon(step["n"], ops.num(step["radius"]), ops.pt(step["center"]))
        elif what == "circle":
            live = Primitive.circle(ops.num(step["radius"]), ops.pt(step["center"]), step["ndiv"])
        elif what == "polygon":
            live = Primitive.polygon([ops.pt(p) for p in step["verts"]])
        else:
            raise HarnessError(f"unknown build {what}")
        return live

    def _finish_build(self, step, idx, what, live):
        self.library_calls += 1
        v = model.value(live)
        if step.get("repeat"):
            again = self._build(step)
            self.library_calls += 1
            self.stats.inc("fault:repeat:fired")
            if model.bits(again) != model.bits(live):
                raise Violation("reask", "C10", idx,
                                f"the same construction {what}{_argstr(step)} repeated gives another object: "
                                f"{_short(model.value(again))} after {_short(v)}")
        self.slots[step["dst"]] = Obj(live, v, model.bits(live), kernel.sane(v), idx)
        self._check_bystanders(idx, {step["dst"]}, "build")
        self._logline(idx, "build", ops._jsonify(model.bits(live)))
        self.stats.inc(f"build:{what}")

    # .. transformations
    def _exec_transform(self, step, idx):
        op = step["op"]
        (n,) = self._names(step)
        o = self.slots[n]
        self._state_tuple(step, [n])
        pre = model.value(o.live)
        if op == "move":
            v = ops.pt(step["v"])
            if all(isinstance(c, (int, Fraction)) for c in v):
                # a rational vector is stored at the library's resolution (denominator <= 10**9)
                v = tuple(Fraction(c).limit_denominator(10**9) for c in v)
            fn = lambda val: model.model_move(val, v[0], v[1])  # noqa: E731
            args_rational = all(isinstance(c, (int, Fraction)) for c in v)
            rel = 1e-12
        elif op == "scale":
            sx, sy = ops.num(step["sx"]), ops.num(step["sy"])
            fn = lambda val: model.model_scale(val, sx, sy)  # noqa: E731
            args_rational = all(isinstance(c, (int, Fraction)) for c in (sx, sy))
            rel = 1e-12
        elif op == "rotate":
            ang, deg = ops.num(step["angle"]), bool(step.get("degrees"))
            fn = lambda val: model.model_rotate(val, ang, deg)  # noqa: E731
            args_rational = False
            rel = 1e-12
        else:
            fn = model.model_invert
            args_rational = True
            rel = 0.0
        via_jordan = op == "invert" and step.get("via") == "jordan"
        outcome, payload = self._call(step, [o.live], idx, "live")
        self._check_bystanders(idx, {n}, op)
        if outcome == "raise" and op == "invert":
            # invert() is not one of C09's transformations; on this tree it raises for a curve
            # with a degree-reducible segment (C07/C17 territory).  It must then be a no-op.
            # (It also leaves the curve half inverted - JordanCurve.invert reverses the segment
            # objects one by one before the setter's assertion fires - but no claimed property
            # covers a failing invert(); the object is taken off the heap.)
            self.stats.inc("probe:invert_raised")
            del self.slots[n]
            self._logline(idx, "invert-raised", type(payload).__name__)
            return
        if outcome == "raise":
            raise Violation("transform-raised", "C09", idx,
                            f"{op}{_argstr(step)} raised {type(payload).__name__}: {payload}")
        if payload is not (o.live if not via_jordan else o.live.jordans[0]):
            raise Violation("transform-return", "C09", idx,
                            f"{op} did not return the same object")
        post = model.value(o.live)
        pred = fn(pre)
        if model.structure(post) != model.structure(pred):
            raise Violation("transform-structure", "C09", idx,
                            f"{op} changed the structure: {model.structure(pred)} expected, {model.structure(post)} found")
        exact = args_rational and kernel.is_rational(pre)
        if exact or op == "invert":
            # move / scale never pass the points through Point2D(...): exact means exact.
            # invert re-creates the segments, which re-normalises every point (13.4 item 10)
            if model.value_bits(pred) != model.bits(o.live) and not (
                    op == "invert" and model.matches_at_resolution(post, pred)):
                ok, why = model.close_values(post, pred, 0.0)
                raise Violation("transform-exact", "C09", idx,
                                f"{op}{_argstr(step)} on rational data is not the exact affine image: {why}")
        else:
            ok, why = model.close_values(post, pred, rel)
            if not ok:
                raise Violation("transform-affine", "C09", idx,
                                f"{op}{_argstr(step)} is not the affine image: {why}")
        for ch in kernel.chains_of(post):
            if not kernel.closed_by_value(ch):
                raise Violation("transform-closed", "C09", idx, f"{op} opened a boundary chain")
        o.V = fn(o.V)
        o.L = model.bits(o.live)
        self.answers[idx] = None
        self._logline(idx, op, ops._jsonify(o.L))
        self.stats.inc("probe:transform_checked")
        if op == "rotate" and step.get("degrees"):
            self.stats.inc("probe:rotate_degrees")
        if kernel.kind(o.V) in ("C", "D"):
            self.stats.inc("probe:transform_composite")

    def _exec_alias_move(self, step, idx):
        """alias-arg fault: the translation vector is the Point2D object of a vertex of
        the target (own=True) or of another heap object."""
        n = step["a"]
        src = step["src"]
        o, so = self.slots[n], self.slots[src]
        self._state_tuple(step, [n], "alias-arg")
        jor = ops.jordan_of(so.live, step["k"])
        verts = jor.vertices
        vec = verts[step["vi"] % len(verts)]
        if not isinstance(vec, Point2D):
            raise HarnessError("vertex is not a Point2D")
        vx, vy = model._num(vec[0]), model._num(vec[1])
        pre = model.value(o.live)
        self.library_calls += 1
        try:
            ret = o.live.move(vec)
        except Exception as e:  # noqa: BLE001
            raise Violation("transform-raised", "C09", idx, f"move(own vertex) raised {type(e).__name__}")
        self.stats.inc("fault:alias_arg:fired")
        # the object whose vertex is passed as the vector is an argument of the call
        allowed = {n, src}
        self._check_bystanders(idx, allowed, "move(alias)")
        if src != n:
            self._check_operand_region(idx, src, "move(alias) [owner of the vector]")
        post = model.value(o.live)
        pred = model.model_move(pre, vx, vy)
        ok, why = model.close_values(post, pred, 1e-12)
        if ret is not o.live or not ok or model.structure(post) != model.structure(pre):
            raise Violation("transform-alias", "C09", idx,
                            f"move by the vector ({vx}, {vy}) given as a vertex object of slot {src} "
                            f"is not the translation: {why}")
        o.V = model.model_move(o.V, vx, vy)
        o.L = model.bits(o.live)
        self._logline(idx, "alias_move", ops._jsonify(o.L))

    # .. re-representation
    def _exec_rerep(self, step, idx):
        (n,) = self._names(step)
        o = self.slots[n]
        self._state_tuple(step, [n], "pre-split")
        outcome, payload = self._call(step, [o.live], idx, "live")
        self.stats.inc(f"fault:pre_split:{'raised' if outcome == 'raise' else 'fired'}")
        self._check_bystanders(idx, {n}, step["op"])
        self._check_operand_region(idx, n, step["op"], transformed=(step["op"] == "clean"))
        self._logline(idx, step["op"], [outcome, ops._jsonify(o.L)])

    # .. everything that must not mutate
    def _exec_nonmutating(self, step, idx):
        op = step["op"]
        names = self._names(step)
        objs = [self.slots[n] for n in names]
        lives = [o.live for o in objs]
        self._state_tuple(step, names, step.get("drop"))
        binary = len(names) == 2
        if "fault" in step:
            return self._exec_faulted(step, idx, names, objs, lives)
        do_t1 = self.check_t1 and step.get("t1", False)
        do_t2 = self.check_t2 and step.get("t2", False)
        twins1, lossless = {}, True
        if do_t1:
            for n in names:
                if n not in twins1:
                    try:
                        tw = _copy.deepcopy(self.slots[n].live)
                    except Exception as e:  # noqa: BLE001
                        if self.slots[n].sane:
                            raise Violation("twin-deepcopy", "C10", idx,
                                            f"deepcopy of the operand in slot {n} raised "
                                            f"{type(e).__name__}: {e} (before {op})")
                        self.stats.inc("probe:twin_copy_raised_on_insane_value")
                        do_t1 = False
                        break
                    twins1[n] = tw
                    if model.bits(tw) != model.bits(self.slots[n].live):
                        lossless = False
        if step.get("drop") == "live":
            faults.cache_drop()
            self.stats.inc("fault:cache_drop:fired")
        outcome, payload = self._call(step, lives, idx, "live")
        ans = ops.normalise(outcome, payload)
        self.answers[idx] = ans
        self._logline(idx, op, ans[1])
        if outcome == "raise":
            self.stats.inc("probe:live_call_raised")
            if isinstance(payload, ops.ArgumentMutated):
                raise Violation("argument-changed", "C08", idx, f"{op}{_argstr(step)}: {payload}")
        # frame invariant
        self._check_bystanders(idx, set(names), op)
        for n in dict.fromkeys(names):
            self._check_operand_region(idx, n, op)
        if ans[0] in ("bool", "num", "box", "rows", "str") and op not in ("plot",):
            self.asked.append((idx, step, [self.slots[n] for n in names],
                               [model.bits(self.slots[n].live) for n in names], ans))
        # singletons copy to themselves
        if op in ("copy", "deepcopy") and isinstance(objs[0].V, str) and outcome == "return":
            if payload is not lives[0]:
                raise Violation("singleton-copy", "C08", idx, f"{op}({objs[0].V}) is not the singleton")
        # expectation carried over from an earlier step (inverse pairs)
        if "same_answer_as" in step and step["same_answer_as"] in self.answers:
            prev = self.answers[step["same_answer_as"]]
            big = max([0.0] + [abs(float(c)) for o in objs for c in kernel.coords_of(o.V)])
            if big > LARGE and not step.get("force_expect"):
                # the library compares with absolute tolerances (1e-9 on points, 1e-6 on areas):
                # beyond this size float rounding alone exceeds them (KF3)
                self.stats.inc("probe:inverse_pair_skipped_large_coordinates")
            elif step.get("stability"):
                if prev is not None and prev[1] != ans[1]:
                    raise Violation("answer-changed", "C10", idx,
                                    f"{op}{_argstr(step)} answered {_ansstr(prev)} before an unrelated "
                                    f"operation on other objects and {_ansstr(ans)} after it")
            elif prev is not None and prev[0] == "bool" and prev[1] != ans[1]:
                raise Violation("inverse-pair-equality", "C09", idx,
                                f"{op} answered {ans[2]!r}; before the transformation and its inverse "
                                f"it answered {prev[2]!r}")
            self.stats.inc("probe:inverse_pair_checked")
        if "expect" in step:
            self._check_expectation(step, idx, ans)
        regime = self._regime(names)
        post_bits = {n: model.bits(self.slots[n].live) for n in dict.fromkeys(names)}
        # re-ask
        if step.get("repeat"):
            allowed = (not binary) or regime["binary_t2"] or bool(step.get("force_t2"))
            if allowed:
                out2 = self._call(step, lives, idx, "repeat")
                ans2 = ops.normalise(*out2)
                self.stats.inc("fault:repeat:fired")
                self._check_bystanders(idx, set(names), op + " (repeat)")
                for n in dict.fromkeys(names):
                    self._check_operand_region(idx, n, op + " (repeat)")
                if not binary and op not in ("plot",):
                    if ans2[1] != ans[1]:
                        raise Violation("reask", "C10", idx,
                                        f"{op} asked twice: {_ansstr(ans)} then {_ansstr(ans2)}")
                else:
                    ok, why = self._tolerant(step, ans, ans2, regime, names)
                    if not ok:
                        raise Violation("reask", "C10", idx,
                                        f"{op} asked twice on the same operands: {why}")
        # T1: deep copies taken before the call
        if do_t1:
            if step.get("drop") == "t1":
                faults.cache_drop()
                self.stats.inc("fault:cache_drop:fired")
            t_objs = [twins1[n] for n in names]
            out1 = self._call(step, t_objs, idx, "T1")
            ans1 = ops.normalise(*out1)
            self.stats.inc("oracle:t1")
            if lossless:
                # str / repr list the distinct vertex *objects*; a deep copy re-shares junction
                # points that a degree-reduced segment had left unshared, so the texts may differ
                # although every value is equal: not one of the answers C10 speaks about
                same = ans1[1] == ans[1] or op in ("str", "repr")
                if same and op not in ("plot",):
                    for n in dict.fromkeys(names):
                        if model.bits(twins1[n]) != post_bits[n]:
                            same = False
                            ans1 = ("state", None, "operand representation after the call differs")
                if not same:
                    raise Violation("twin-deepcopy", "C10", idx,
                                    f"{op}{_argstr(step)}: live {_ansstr(ans)} but deep copy {_ansstr(ans1)}")
            else:
                self.stats.inc("probe:t1_lossy_copy")
                ok, why = self._tolerant(step, ans, ans1, regime, names, lossy=True)
                if not ok:
                    raise Violation("twin-deepcopy", "C10", idx, f"{op}: {why}")
        # T2: rebuilt from the model
        if do_t2 and all(o.sane for o in objs) and self._t2_applicable(step, regime, binary):
            if step.get("drop") == "t2":
                faults.cache_drop()
                self.stats.inc("fault:cache_drop:fired")
            twins2 = {}
            for n in names:
                if n not in twins2:
                    try:
                        twins2[n] = model.fresh(self.slots[n].V)
                    except Exception as e:  # noqa: BLE001
                        raise Violation("twin-fresh", "C10", idx,
                                        f"rebuilding the operand in slot {n} from its value raised "
                                        f"{type(e).__name__}: {e}; value {_short(self.slots[n].V)}")
            out2 = self._call(step, [twins2[n] for n in names], idx, "T2")
            ans2 = ops.normalise(*out2)
            self.stats.inc("oracle:t2")
            if binary:
                self.stats.inc("oracle:t2_binary")
            ok, why = self._tolerant(step, ans, ans2, regime, names)
            if not ok:
                raise Violation("twin-fresh", "C10", idx,
                                f"{op}{_argstr(step)}: live vs freshly built operands: {why}")
        # birth
        if outcome == "return" and ans[0] == "shape" and step.get("dst") is not None:
            v = ans[2]
            self.slots[step["dst"]] = Obj(payload, v, model.bits(payload), kernel.sane(v), idx)
            self.stats.inc("births")
            if op in ops.BINARY_OPERATORS and not regime["good_position"]:
                self.slots[step["dst"]].sane = False

    def _check_expectation(self, step, idx, ans):
        """Consequences of a transformation stated by C09: T(p) in T(S) iff p in S; area and
        moments scale as the affine map says.  `expect` refers to the answer of an earlier
        step (before the transformation)."""
        exp = step["expect"]
        prev = self.answers.get(exp["ref"])
        if prev is None or prev[0] == "raise" or ans[0] == "raise":
            return
        self.stats.inc("probe:transform_consequence_checked")
        if exp["kind"] == "same_bool":
            if prev[0] == "bool" and ans[0] == "bool" and prev[2] != ans[2]:
                raise Violation("transform-consequence", "C09", idx,
                                f"T(p) in T(S) is {ans[2]} but p in S was {prev[2]} "
                                f"(p={_argval(exp.get('p'))}, T(p)={_argval(step.get('p'))})")
            return
        if exp["kind"] == "ratio" and prev[0] == "num" and ans[0] == "num":
            ratio = ops.num(exp["ratio"])
            a0, a1 = prev[2], ans[2]
            vnow = self.slots[step["a"]].V
            rounded = (not isinstance(vnow, str)) and kernel.max_denominator(model.value(self.slots[step["a"]].live)) > 10**4
            if all(isinstance(x, (int, Fraction)) for x in (a0, a1, ratio)) and not rounded:
                ok = a1 == a0 * ratio
            else:
                want = float(a0) * float(ratio)
                # a moment about the origin can be ~0 by cancellation: the error is relative to
                # extent**(2+a+b), not to the value itself
                ext = max([1.0] + [abs(float(c)) for c in kernel.coords_of(self.slots[step["a"]].V)])
                power = 2 + step.get("ea", 0) + step.get("eb", 0)
                ok = abs(float(a1) - want) <= 1e-9 * max(abs(want), abs(float(a1))) + 1e-11 * ext ** power
            if not ok:
                raise Violation("transform-consequence", "C09", idx,
                                f"{step['op']}{_argstr(step)} after the transformation is {a1!r}; "
                                f"before it was {a0!r}, expected ratio {ratio!r}")

    def final_checks(self):
        """Answer stability: a question asked earlier in the run is asked again at the end on
        every object that is bit for bit what it was then; whatever happened in between (other
        objects' operations, warm tables, faults) must not have changed the answer."""
        idx = len(self.steps)
        for (i0, step, objs, bits0, ans0) in self.asked[-16:]:
            names = self._names(step) if all(k not in step or step[k] in self.slots for k in ("a", "b")) else None
            if names is None:
                continue
            if any(self.slots[n] is not o for n, o in zip(names, objs)):
                continue  # the slot holds another object now
            if any(model.bits(self.slots[n].live) != b for n, b in zip(names, bits0)):
                continue  # legitimately transformed or re-represented since
            q = {k: v for k, v in step.items() if k not in ("fault", "drop", "dst")}
            out = self._call(q, [o.live for o in objs], idx, "re-ask at end of run")
            ans1 = ops.normalise(*out)
            self.stats.inc("oracle:answer_stability")
            if ans1[1] != ans0[1]:
                raise Violation("answer-changed", "C10", idx,
                                f"{step['op']}{_argstr(step)} answered {_ansstr(ans0)} at step {i0} and "
                                f"{_ansstr(ans1)} at the end of the run on bit-identical operands")
            self._check_bystanders(idx, set(names), step["op"] + " (re-ask at end)")
            for n in dict.fromkeys(names):
                self._check_operand_region(idx, n, step["op"] + " (re-ask at end)")

    def _exec_faulted(self, step, idx, names, objs, lives):
        """A non-mutating call interrupted at a seeded crash point (C11 inside a history):
        the operands keep their history and caches, the run goes on afterwards."""
        from . import c11

        op = step["op"]
        fl = step["fault"]
        try:
            twins = {n: _copy.deepcopy(self.slots[n].live) for n in dict.fromkeys(names)}
        except Exception:  # noqa: BLE001
            self.stats.inc("probe:twin_copy_raised_on_insane_value")
            return
        mon = faults.Monitor.get()
        mode = fl.get("mode", "structural")
        if mode == "all" and not all(isinstance(o.V, str) or kernel.is_polygonal(o.V) for o in objs):
            mode = "structural"  # every event of a curved operation: minutes per call
        budget = 40 * self.budget  # all event kinds are counted here, not only function entries
        signal.setitimer(signal.ITIMER_REAL, CALL_WALL)
        try:
            _o, _p, info_c = mon.run(lambda: ops.perform(step, [twins[n] for n in names]),
                                     mode=mode, budget=budget)
            total = info_c["count"]
            if total == 0:
                self.stats.inc("fault:interrupt:no_events")
                return
            k = min(total, 1 + int(fl["kfrac"] * total))
            outcome, payload, info = mon.run(lambda: ops.perform(step, lives), mode=mode,
                                             target=k, exc=faults.ERROR_KINDS[fl["exc"]], budget=budget)
        except faults.SimBudgetExceeded as e:
            raise Violation("hang", "any", idx, f"interrupted call of {op}: {e}")
        except CallTimeout:
            raise HarnessError(f"faulted call of {op} at step {idx} exceeded {CALL_WALL}s wall clock")
        finally:
            signal.setitimer(signal.ITIMER_REAL, 0)
        self.library_calls += 2
        self.events += info["count"] + total
        if not info["fired"]:
            self.stats.inc("fault:interrupt:not_reached")
        else:
            self.stats.inc(f"fault:{fl['exc']}@k:fired")
            if outcome == "return":
                self.stats.inc("fault:swallowed_by_library")
        self._logline(idx, op + "!fault", [k, total, outcome == "raise", list(info["fired_site"] or [])])
        try:
            self._check_bystanders(idx, set(names), op + " (interrupted)")
            for n in dict.fromkeys(names):
                self._check_operand_region(idx, n, op + " (interrupted)")
        except Violation as v:
            raise Violation("operands-after-fault", "C11", idx,
                            f"{fl['exc']} injected at event {k}/{total} ({info['fired_site']}): {v.details}")
        # no hidden state left behind: the operands answer a panel exactly as deep copies do
        live_objs = [self.slots[n].live for n in dict.fromkeys(names)]
        if all(self.slots[n].sane for n in names):
            try:
                copies = _copy.deepcopy(live_objs)
            except Exception as e:  # noqa: BLE001
                raise Violation("operands-after-fault", "C11", idx,
                                f"deepcopy of the operands raises {type(e).__name__} after {fl['exc']}@{k}/{total}")
            if all(model.bits(a) == model.bits(b) for a, b in zip(live_objs, copies)):
                if c11.panel(live_objs) != c11.panel(copies):
                    raise Violation("operands-after-fault", "C11", idx,
                                    f"after {fl['exc']} at event {k}/{total} ({info['fired_site']}) the operands "
                                    f"answer differently from their deep copies")

    # ------------------------------------------------------------- comparison
    def _regime(self, names):
        vals = [self.slots[n].V for n in dict.fromkeys(names)]
        lives = [model.value(self.slots[n].live) for n in dict.fromkeys(names)]
        both = [v for v in vals + lives if not isinstance(v, str)]
        tol = kernel.Tol(*both) if both else None
        # exact: model AND live representation are rational polygons (an operator with a float
        # partner leaves float vertices on a rational operand)
        exact = bool(tol and tol.exact) or tol is None
        # numbers (areas, moments, boxes) are exact only while denominators stay small: Point2D
        # arithmetic re-normalises every intermediate point with limit_denominator(10**9)
        exact_nums = exact and all(kernel.max_denominator(v) <= 10**4 for v in both)
        good = True
        binary_t2 = False
        if len(names) == 2:
            a, b = self.slots[names[0]], self.slots[names[1]]
            if names[0] == names[1]:
                pos = "identical"
            else:
                pos = kernel.position(a.V, b.V)
            good = pos != "contact"
            if exact and good and not isinstance(a.V, str) and not isinstance(b.V, str):
                exact = kernel.crossings_max_denominator(a.V, b.V) <= 10**9
            binary_t2 = exact and good
            # coincident float boundaries are a degenerate contact (every edge overlaps an edge
            # of the other operand up to rounding noise): general position only for non-exact data
            if good and not exact and pos != "identical" and T2_FLOAT_BINARY and tol is not None:
                # float polygons (and, when enabled, curved boundaries): compared with the
                # tolerances of DESIGN 3.1 instead of exactly
                if not tol.curved or T2_CURVED_BINARY:
                    binary_t2 = True
            self.stats.inc(f"position:{pos}")
        if binary_t2 and len(names) == 2 and names[0] != names[1]:
            la, lb = model.value(self.slots[names[0]].live), model.value(self.slots[names[1]].live)
            if not isinstance(la, str) and not isinstance(lb, str) and kernel.live_near_degenerate(la, lb):
                # a crossing in the tolerance band next to a vertex left by an earlier split (KF4)
                binary_t2 = False
                self.stats.inc("probe:t2_skipped_live_near_degenerate")
        extent = max([0.0] + [abs(float(c)) for v in vals for c in kernel.coords_of(v)])
        if extent > LARGE and not exact:
            binary_t2 = False
        return {"tol": tol, "exact": exact, "exact_nums": exact_nums, "good_position": good,
                "binary_t2": binary_t2, "extent": extent}

    def _t2_applicable(self, step, regime, binary):
        op = step["op"]
        if regime.get("extent", 0.0) > LARGE and not regime["exact"] and not step.get("force_t2"):
            self.stats.inc("probe:t2_skipped_large_coordinates")
            return False
        if op in ("str", "repr", "points", "jinter", "jand"):
            return False  # depend on the representation by design: T1 only
        if binary:
            # force_t2 is set only by the witness histories of listed known findings
            return regime["binary_t2"] or bool(step.get("force_t2"))  # (witness histories force it)
        tol = regime["tol"]
        if op == "box" and tol is not None and tol.curved:
            return False
        if op == "moment" and step.get("nnodes") is not None:
            # a user-chosen quadrature order is in general not exact: the value then depends on
            # how the boundary is cut (deep-copy twin and answer stability still apply)
            return False
        if op == "moment" and tol is not None and tol.curved:
            # only where the library's own quadrature is exact for the integrand
            deg = max(len(s) - 1 for n in [step["a"]] for ch in kernel.chains_of(self.slots[n].V) for s in ch)
            ea, eb = step["ea"], step["eb"]
            integrand = (ea + 1 + eb) * deg + deg - 1
            nnodes = 3 + (ea + 1) + eb + deg
            return integrand <= nnodes - 1
        return True

    def _tolerant(self, step, ans_a, ans_b, regime, names, lossy=False):
        ka, kb = ans_a[0], ans_b[0]
        if ka != kb:
            return False, f"{_ansstr(ans_a)} vs {_ansstr(ans_b)}"
        pa, pb = ans_a[2], ans_b[2]
        tol = regime["tol"]
        exact = regime["exact"] and not lossy
        op = step["op"]
        if ka == "raise":
            return (pa == pb), f"raises {pa} vs raises {pb}"
        if ka in ("none",):
            return True, "ok"
        if ka in ("bool", "plot"):
            return (pa == pb), f"{pa!r} vs {pb!r}"
        if ka == "str":
            return True, "ok"
        if ka == "shape":
            if isinstance(pa, str) or isinstance(pb, str):
                return (pa == pb), f"{_short(pa)} vs {_short(pb)}"
            ok, why = kernel.same_region(pa, pb, None if not exact else None)
            return ok, f"results denote different regions: {why}; {_short(pa)} vs {_short(pb)}"
        exact_nums = regime.get("exact_nums", exact) and not lossy
        if ka == "num":
            if exact_nums and op != "jlen" and isinstance(pa, (int, Fraction)) and isinstance(pb, (int, Fraction)):
                return (pa == pb), f"{pa!r} vs {pb!r}"
            fa, fb = float(pa), float(pb)
            if math.isinf(fa) or math.isinf(fb):
                return fa == fb, f"{fa!r} vs {fb!r}"
            d = tol.d if tol else 1.0
            if op == "jlen":
                # the library integrates |C'(u)| with 5 nodes per arc: for a strongly curved arc
                # the value moves by several per cent when the arc is cut
                rel = 1e-1 if (tol and tol.curved) else 1e-9
                if (fa > 0) != (fb > 0):
                    return False, f"signed length {fa!r} vs {fb!r}"
                return abs(fa - fb) <= rel * max(abs(fa), abs(fb)), f"signed length {fa!r} vs {fb!r}"
            power = 2 + step.get("ea", 0) + step.get("eb", 0)
            # areas and moments about the origin: the rounding error scales with
            # extent**(2+a+b) of the data (the value itself may be ~0 by cancellation)
            ext = max([d] + [abs(float(c)) for n in names for c in kernel.coords_of(self.slots[n].V)])
            if exact or tol is None:
                base, rel = 1e-12, 1e-12
            else:
                base, rel = tol.area / (d * d), tol.num_rel
            scale = base * (ext ** power) + rel * max(abs(fa), abs(fb))
            return abs(fa - fb) <= scale, f"{op}: {fa!r} vs {fb!r}"
        if ka == "box":
            if exact_nums:
                return (pa == pb), f"box {pa!r} vs {pb!r}"
            d = tol.d if tol else 1.0
            ok = all(abs(float(x) - float(y)) <= 1e-9 * max(d, abs(float(x))) for x, y in zip(pa, pb))
            return ok, f"box {pa!r} vs {pb!r}"
        if ka == "rows":
            return True, "ok"
        return (ans_a[1] == ans_b[1]), f"{_ansstr(ans_a)} vs {_ansstr(ans_b)}"


def _chains_of_bits(b):
    if isinstance(b, str):
        return []
    tag, body = b
    if tag in ("S", "J"):
        return [body]
    out = []
    for sub in body:
        out.extend(_chains_of_bits(sub))
    return out


def _same_point_bits(a, b):
    """Bitwise equal, or equal at the library's resolution (a rational coordinate re-normalised
    by limit_denominator(10**9))."""
    if a == b:
        return True
    for ca, cb in zip(a, b):
        if ca == cb:
            continue
        if ca[0] == "q" and cb[0] == "q":
            fa = Fraction(int(ca[2]), int(ca[4])) if ca[1] == "int" and ca[3] == "int" else None
            fb = Fraction(int(cb[2]), int(cb[4])) if cb[1] == "int" and cb[3] == "int" else None
            if fa is not None and fb is not None and fa.denominator > 10**9 and fb == fa.limit_denominator(10**9):
                continue
        return False
    return True


def _vertices_persist(before, after):
    """Every junction vertex (segment end point) a boundary chain had before a non-mutating
    call is still there afterwards, bit for bit and in the same cyclic order; the call may only
    have inserted vertices in between.  Returns a description of the first failure or ''."""
    cb, ca = _chains_of_bits(before), _chains_of_bits(after)
    if len(cb) != len(ca):
        return f"{len(cb)} boundary curves became {len(ca)}"
    used = set()
    for chain_b in cb:
        verts_b = [seg[0] for seg in chain_b]
        found = False
        for j, chain_a in enumerate(ca):
            if j in used:
                continue
            verts_a = [seg[0] for seg in chain_a]
            # cyclic subsequence test, any rotation of the start
            starts = [i for i, v in enumerate(verts_a) if _same_point_bits(verts_b[0], v)]
            for st in starts:
                rot = verts_a[st:] + verts_a[:st]
                it = 0
                ok = True
                for vb in verts_b:
                    while it < len(rot) and not _same_point_bits(vb, rot[it]):
                        it += 1
                    if it == len(rot):
                        ok = False
                        break
                    it += 1
                if ok:
                    found = True
                    break
            if found:
                used.add(j)
                break
        if not found:
            return "a vertex of the boundary was moved or removed"
    return ""


# ------------------------------------------------------------------ rendering
def _short(v, limit=160):
    if isinstance(v, str):
        return v
    try:
        s = json.dumps(model.jsonable(v))
    except Exception:  # noqa: BLE001
        s = repr(v)
    return s if len(s) <= limit else s[:limit] + "..."


def _short_bits(b, limit=160):
    s = repr(b)
    return s if len(s) <= limit else s[:limit] + "..."


def _ansstr(ans):
    kind, _bits, plain = ans
    if kind == "shape":
        return "shape " + _short(plain)
    return f"{kind} {plain!r}"[:200]


def _argstr(step):
    keys = [k for k in step if k not in ("op", "a", "b", "dst", "t1", "t2", "repeat", "drop", "same_answer_as", "needs", "expect", "force_expect", "force_t2", "fault", "kkey", "kakey", "kbkey", "noisy_point", "stability", "dkw", "via", "aform", "nnodes")]
    return "(" + ", ".join(f"{k}={_argval(step[k])}" for k in keys) + ")"


def _argval(x):
    try:
        if isinstance(x, (list, tuple)) and len(x) == 2 and not isinstance(x[0], (list, tuple)):
            return repr(tuple(model.num_from_json(c) for c in x))
        return repr(model.num_from_json(x))
    except Exception:  # noqa: BLE001
        return repr(x)
