"""One simulated run = one (property, seed, run index) triple, or one recorded step list."""
from __future__ import annotations

import traceback

from . import faults
from .schedule import Scheduler
from .world import HarnessError, Violation, World


def _new_world(prop):
    # every claimed profile evaluates every oracle; they differ in what is generated
    return World(check_t1=True, check_t2=True)


def run_history(prop, seed, run, force=None, max_steps=None):
    """Generate and execute one history.  Returns a plain dict (picklable)."""
    faults.cache_drop()  # every run starts cold, whatever the worker did before
    sched = Scheduler(prop, seed, run, force)
    world = _new_world(prop)
    nsteps = max_steps or sched.cfg["nsteps"]
    violation = None
    error = None
    try:
        count = 0
        while count < nsteps or sched.pending:
            step = sched.next_step(world)
            if step is None:
                break
            if "macro" in step:
                step = sched.resolve_macro(world, step)
                if step is None:
                    continue
            if any(k in step and step[k] not in world.slots for k in ("a", "b", "src")):
                # a queued macro step whose operand was never born (the step that should have
                # produced it was turned into an interrupted call): drop it
                world.stats.inc("probe:macro_step_dropped")
                continue
            world.execute(step)
            count += 1
            if count > nsteps + 8:
                break
        world.final_checks()
    except Violation as v:
        violation = {"invariant": v.invariant, "class": v.cls, "step": v.step_index, "details": v.details}
    except HarnessError as e:
        error = f"HarnessError: {e}"
    except Exception:  # noqa: BLE001 - a bug of the harness, never a verdict
        error = traceback.format_exc()
    return {
        "prop": prop, "seed": seed, "run": run,
        "cfg": sched.cfg,
        "steps": world.steps,
        "violation": violation,
        "error": error,
        "digest": world.digest(),
        "stats": world.stats.c,
        "states": sorted(repr(s) for s in world.states),
        "library_calls": world.library_calls,
        "events": world.events,
    }


def replay_steps(prop, steps):
    """Execute a recorded step list (replay files, minimisation)."""
    faults.cache_drop()
    world = _new_world(prop)
    violation = None
    error = None
    try:
        for step in steps:
            world.execute(step)
        world.final_checks()
    except Violation as v:
        violation = {"invariant": v.invariant, "class": v.cls, "step": v.step_index, "details": v.details}
    except HarnessError as e:
        error = f"HarnessError: {e}"
    except Exception:  # noqa: BLE001
        error = traceback.format_exc()
    return {"violation": violation, "error": error, "digest": world.digest(),
            "steps": world.steps, "stats": world.stats.c}
