"""Fault seams (DESIGN 2.3): the sys.monitoring event monitor that counts interpreter
events inside shapepy code and raises an injected exception at the k-th one, the
cache-drop fault, and the catalogue of invalid arguments."""
from __future__ import annotations

import importlib
import os
import pkgutil
import sys
import types
from decimal import Decimal
from fractions import Fraction

import shapepy

MON = sys.monitoring
EV = MON.events

STRUCTURAL_FILES = ("shape.py", "jordancurve.py", "primitive.py", "plot.py")


class SimInterrupt(BaseException):
    """Models an asynchronous interrupt (KeyboardInterrupt, pytest-timeout)."""


class SimBudgetExceeded(BaseException):
    """Deterministic hang verdict: the step used more events than its budget."""


ERROR_KINDS = {
    "interrupt": SimInterrupt,
    "memory": MemoryError,
    "assertion": AssertionError,
    "zerodiv": ZeroDivisionError,
    "value": ValueError,
    "type": TypeError,
}


def _code_objects_of(obj, seen, out, pkg_prefix):
    if isinstance(obj, types.CodeType):
        if id(obj) in seen:
            return
        seen.add(id(obj))
        if pkg_prefix in obj.co_filename:
            out.append(obj)
        for c in obj.co_consts:
            if isinstance(c, types.CodeType):
                _code_objects_of(c, seen, out, pkg_prefix)
        return
    if isinstance(obj, (staticmethod, classmethod)):
        _code_objects_of(obj.__func__, seen, out, pkg_prefix)
    elif isinstance(obj, property):
        for f in (obj.fget, obj.fset, obj.fdel):
            if f is not None:
                _code_objects_of(f, seen, out, pkg_prefix)
    elif isinstance(obj, types.FunctionType):
        _code_objects_of(obj.__code__, seen, out, pkg_prefix)
    elif isinstance(obj, type):
        if id(obj) in seen:
            return
        seen.add(id(obj))
        for v in list(vars(obj).values()):
            _code_objects_of(v, seen, out, pkg_prefix)


def discover_code():
    """Every code object defined in the files of the shapepy package on disk."""
    pkg_dir = os.path.dirname(os.path.abspath(shapepy.__file__))
    mods = [shapepy]
    for info in pkgutil.walk_packages(shapepy.__path__, "shapepy."):
        try:
            mods.append(importlib.import_module(info.name))
        except Exception:  # a broken optional module must not stop the monitor
            pass
    seen, out = set(), []
    for mod in mods:
        for v in list(vars(mod).values()):
            if isinstance(v, (types.FunctionType, type, staticmethod, classmethod, property)):
                _code_objects_of(v, seen, out, pkg_dir)
    out.sort(key=lambda c: (c.co_filename, c.co_firstlineno, c.co_name))
    return out


def module_dicts():
    """(owner name, attribute name, dict) of every dict-valued class or module attribute of
    shapepy.* -- the memo tables -- found by reflection."""
    found = []
    mods = [shapepy]
    for info in pkgutil.walk_packages(shapepy.__path__, "shapepy."):
        try:
            mods.append(importlib.import_module(info.name))
        except Exception:
            pass
    seen = set()
    for mod in mods:
        for name, v in sorted(vars(mod).items()):
            if name.startswith("__") and name.endswith("__"):
                continue
            if isinstance(v, dict) and id(v) not in seen and not name.startswith("_" * 2 + "builtins"):
                seen.add(id(v))
                found.append((mod.__name__, name, v))
            if isinstance(v, type) and getattr(v, "__module__", "").startswith("shapepy"):
                for an, av in sorted(vars(v).items()):
                    if an.startswith("__") and an.endswith("__"):
                        continue
                    if isinstance(av, dict) and id(av) not in seen:
                        seen.add(id(av))
                        found.append((f"{mod.__name__}.{v.__name__}", an, av))
                    fn = av.__func__ if isinstance(av, (staticmethod, classmethod)) else av
                    if hasattr(fn, "cache_clear") and id(fn) not in seen:
                        seen.add(id(fn))
                        found.append((f"{mod.__name__}.{v.__name__}", an, fn))
            if hasattr(v, "cache_clear") and id(v) not in seen:
                seen.add(id(v))
                found.append((mod.__name__, name, v))
    return found


_SCALAR_OWNERS = None


def global_scalars():
    """Every scalar (number, bool, str) class or module attribute of shapepy.* - tolerances,
    flags, counters - found by reflection: configuration that no call may leave changed."""
    global _SCALAR_OWNERS
    if _SCALAR_OWNERS is None:
        owners = []
        mods = [shapepy]
        for info in pkgutil.walk_packages(shapepy.__path__, "shapepy."):
            try:
                mods.append(importlib.import_module(info.name))
            except Exception:
                pass
        for mod in mods:
            owners.append((mod.__name__, mod))
            for name, v in sorted(vars(mod).items()):
                if isinstance(v, type) and getattr(v, "__module__", "").startswith("shapepy"):
                    owners.append((f"{mod.__name__}.{v.__name__}", v))
        _SCALAR_OWNERS = owners
    scal = (int, float, bool, str, Fraction)
    out = {}
    for oname, owner in _SCALAR_OWNERS:
        for an, av in vars(owner).items():
            if an.startswith("__") and an.endswith("__"):
                continue
            if isinstance(av, scal):
                out[f"{oname}.{an}"] = repr(av)
    return out


def cache_drop():
    """The cache-drop fault: empty every memo table.  Returns how many entries were dropped."""
    dropped = 0
    for _owner, _name, table in module_dicts():
        if isinstance(table, dict):
            dropped += len(table)
            table.clear()
        else:
            try:
                dropped += table.cache_info().currsize
            except Exception:
                pass
            table.cache_clear()
    return dropped


def cache_sizes():
    out = {}
    for owner, name, table in module_dicts():
        out[f"{owner}.{name}"] = len(table) if isinstance(table, dict) else -1
    return out


class Monitor:
    """Counts PY_START / PY_RETURN / LINE / JUMP / C_RETURN events in shapepy code objects
    and optionally raises at a chosen event.

    mode 'structural': only code objects of shape.py / jordancurve.py / primitive.py /
    plot.py are armed (crash point k is the k-th structural event);
    mode 'all': every shapepy code object is armed.
    """

    _instance = None

    def __init__(self):
        self.tool = None
        for tid in (3, 4, 2, 1, 0, 5):
            try:
                if MON.get_tool(tid) is None:
                    MON.use_tool_id(tid, "shapepy-verif-sim")
                    self.tool = tid
                    break
            except ValueError:
                continue
        if self.tool is None:
            raise RuntimeError("no free sys.monitoring tool id")
        self.codes = discover_code()
        self.structural = [
            c for c in self.codes if os.path.basename(c.co_filename) in STRUCTURAL_FILES
        ]
        # functions that read or write a module-level memo table (found by name)
        tnames = {name for _owner, name, _t in module_dicts()}
        self.table_codes = [c for c in self.codes if tnames & set(c.co_names)]
        self.armed = []
        self.count = 0
        self.target = None
        self.exc_factory = None
        self.fired = False
        self.fired_site = None
        self.budget = None
        self.trace = None  # list to record sites, or None
        self.watch = None  # callable(event_index) at structural events (dirty windows)
        self.active = False
        MON.register_callback(self.tool, EV.PY_START, self._on_start)
        MON.register_callback(self.tool, EV.PY_RETURN, self._on_return)
        MON.register_callback(self.tool, EV.LINE, self._on_line)
        MON.register_callback(self.tool, EV.JUMP, self._on_jump)
        # returns from C callables (len, tuple, numpy, Fraction arithmetic ...): the other half
        # of "each internal call boundary"; C_RETURN / C_RAISE are delivered only while CALL is on
        MON.register_callback(self.tool, EV.CALL, self._on_call)
        MON.register_callback(self.tool, EV.C_RETURN, self._on_c_return)
        MON.register_callback(self.tool, EV.C_RAISE, self._on_c_return)

    @classmethod
    def get(cls):
        if cls._instance is None:
            cls._instance = cls()
        return cls._instance

    # -- callbacks -------------------------------------------------------
    def _event(self, kind, code, where):
        if not self.active:
            return
        self.count += 1
        n = self.count
        if self.trace is not None:
            self.trace.append((kind, os.path.basename(code.co_filename), code.co_name, where))
        if self.watch is not None:
            self.active = False
            try:
                self.watch(n)
            finally:
                self.active = True
        if self.target is not None and n == self.target and not self.fired:
            self.fired = True
            self.fired_site = (kind, os.path.basename(code.co_filename), code.co_name, where)
            self.active = False
            raise self.exc_factory()
        if self.budget is not None and n > self.budget:
            self.active = False
            raise SimBudgetExceeded(f"more than {self.budget} events")

    def _on_start(self, code, offset):
        self._event("S", code, code.co_firstlineno)

    def _on_return(self, code, offset, retval):
        self._event("R", code, offset)

    def _on_line(self, code, line):
        self._event("L", code, line)

    def _on_jump(self, code, src, dst):
        self._event("J", code, src)

    def _on_call(self, code, offset, callable_, arg0):
        return None

    def _on_c_return(self, code, offset, callable_, arg0):
        self._event("C", code, offset)

    # -- arming ----------------------------------------------------------
    def _arm(self, mode, events):
        codes = {"structural": self.structural, "tables": self.table_codes}.get(mode, self.codes)
        for c in codes:
            MON.set_local_events(self.tool, c, events)
        self.armed = codes

    def _disarm(self):
        for c in self.armed:
            MON.set_local_events(self.tool, c, 0)
        self.armed = []

    def run(self, fn, *, mode="structural", target=None, exc=SimInterrupt, budget=None,
            trace=False, watch=None, light=False):
        """Run fn() under the monitor.  Returns (outcome, payload, info) where outcome is
        'return' | 'raise' and payload the value / exception.  info has count, fired,
        fired_site, trace."""
        events = EV.PY_START if light else (EV.PY_START | EV.PY_RETURN | EV.LINE | EV.JUMP | EV.CALL)
        self.count = 0
        self.target = target
        self.exc_factory = exc
        self.fired = False
        self.fired_site = None
        self.budget = budget
        self.trace = [] if trace else None
        self.watch = watch
        self._arm(mode, events)
        self.active = True
        try:
            try:
                result = fn()
                outcome, payload = "return", result
            except SimBudgetExceeded:
                raise
            except BaseException as e:  # noqa: BLE001 - the fault may surface as anything
                outcome, payload = "raise", e
        finally:
            self.active = False
            self._disarm()
        info = {
            "count": self.count,
            "fired": self.fired,
            "fired_site": self.fired_site,
            "trace": self.trace,
        }
        self.trace = None
        self.watch = None
        self.target = None
        return outcome, payload, info


def run_budgeted(fn, budget):
    """Run fn() with only a PY_START budget armed (cheap hang guard)."""
    mon = Monitor.get()
    outcome, payload, info = mon.run(fn, mode="all", budget=budget, light=True)
    return outcome, payload, info


# ---------------------------------------------------------------- bad arguments
def badarg_catalogue():
    """(method, args, kwargs) triples that the in-place transformations must either
    reject leaving the shape unchanged, or accept consistently."""
    bad = ["ab", None, 1j, [2], Decimal(3), "3", (1, 2, 3), float("nan"), float("inf"), 10**400]
    good = [2, Fraction(3, 2), 0.5]
    cat = []
    for b in bad:
        for g in good[:2]:
            cat.append(("scale", (b, g), {}))
            cat.append(("scale", (g, b), {}))
            cat.append(("move", (b, g), {}))
            cat.append(("move", (g, b), {}))
        cat.append(("move", (b,), {}))
        cat.append(("rotate", (b,), {}))
        cat.append(("rotate", (b,), {"degrees": True}))
    cat.append(("rotate", (1, "x"), {}))
    cat.append(("rotate", (Fraction(1, 3),), {"degrees": "x"}))
    cat.append(("scale", (2,), {}))
    cat.append(("scale", (), {}))
    cat.append(("scale", (1, 2, 3), {}))
    cat.append(("move", (), {}))
    cat.append(("move", (1, 2, 3), {}))
    cat.append(("move", ((1, 2, 3),), {}))
    cat.append(("move", ((1,),), {}))
    cat.append(("rotate", (), {}))
    # one-shot iterables: legal vectors for move (consumed once), legal or not they must
    # never leave a composite shape half transformed.  Callables build fresh arguments.
    cat.append(("move", lambda: (iter((1, 2)),), {}))
    cat.append(("move", lambda: ((c for c in (Fraction(1, 2), 3)),), {}))
    cat.append(("move", lambda: (map(float, (1, 2)),), {}))
    cat.append(("move", lambda: (iter((1,)),), {}))
    cat.append(("move", lambda: (iter(("a", 2)),), {}))
    cat.append(("scale", lambda: (2, iter((3,))), {}))
    # legal but extreme factors: either every curve is scaled or none
    cat.append(("scale", (1e-5, 1e-5), {}))
    cat.append(("scale", (Fraction(1, 10**5), 1), {}))
    cat.append(("scale", (1e5, 1e-5), {}))
    cat.append(("rotate", lambda: (iter((1,)),), {}))
    return cat
