"""Seeded generators of pure model values (DESIGN 2.2 'build').  Everything is a
function of the random.Random instance passed in; nothing here touches shapepy."""
from __future__ import annotations

import math
from fractions import Fraction

from . import kernel

GRID = 12  # rational grid 1/12


def _snap(x, numeric, den=GRID):
    if numeric == "int":
        return int(round(x))
    return Fraction(int(round(x * den)), den)


def polygon(rng, numeric="frac", nmin=3, nmax=8, center=None, rmin=1.0, rmax=4.0, tries=60, den=GRID):
    """A simple polygon (CCW list of vertices) in general position: star-shaped about
    its centre before snapping to the grid, verified simple after snapping, no collinear
    consecutive vertices, features >= 1/4."""
    base = "int" if numeric == "int" else "frac"
    for _ in range(tries):
        n = rng.randint(nmin, nmax)
        if center is None:
            cx, cy = rng.uniform(-3, 3), rng.uniform(-3, 3)
        else:
            cx, cy = center
        scale = 2.0 if base == "int" else 1.0
        angles = sorted(rng.uniform(0, math.tau) for _ in range(n))
        gaps = [
            (angles[(i + 1) % n] - angles[i]) % math.tau for i in range(n)
        ]
        if max(gaps) > math.pi * 0.95 or min(gaps) < 0.25:
            continue
        verts = []
        for a in angles:
            r = rng.uniform(rmin, rmax) * scale
            verts.append((_snap(cx + r * math.cos(a), base, den), _snap(cy + r * math.sin(a), base, den)))
        if len(set(verts)) != n:
            continue
        if not kernel.simple_polygon(verts):
            continue
        if kernel.min_feature(verts) < (0.6 if base == "int" else 0.3):
            continue
        area = sum(
            verts[i][0] * verts[(i + 1) % n][1] - verts[(i + 1) % n][0] * verts[i][1]
            for i in range(n)
        )
        if area <= 0:
            continue
        if max(abs(float(c)) for v in verts for c in v) > 12:
            continue
        if numeric == "float":
            # generic floats: rotate the rational polygon by an arbitrary angle
            ang = rng.uniform(0, math.tau)
            c, s = math.cos(ang), math.sin(ang)
            verts = [
                (c * float(x) - s * float(y), s * float(x) + c * float(y)) for x, y in verts
            ]
        return verts
    # fall back: a plain triangle that always satisfies the constraints
    if numeric == "float":
        return [(0.1, 0.2), (3.3, 0.4), (0.7, 2.9)]
    return [(0, 0), (4, 0), (1, 3)] if numeric == "int" else [
        (Fraction(0), Fraction(0)), (Fraction(4), Fraction(1, 2)), (Fraction(1), Fraction(3))]


def poly_chain(verts):
    n = len(verts)
    return tuple((verts[i], verts[(i + 1) % n]) for i in range(n))


def reverse_chain(chain):
    return tuple(tuple(reversed(seg)) for seg in reversed(chain))


def curved_chain(rng, numeric="frac", degree=2, nmin=3, nmax=6, center=None):
    """Closed quadratic/cubic chain: a generated polygon whose edges get control points
    displaced from the edge by a small bulge (|bulge| <= 0.18 * edge length), verified
    simple on a fine polyline."""
    for _ in range(40):
        verts = polygon(rng, "frac" if numeric != "int" else "int", nmin, nmax, center)
        n = len(verts)
        chain = []
        for i in range(n):
            a, b = verts[i], verts[(i + 1) % n]
            ex, ey = b[0] - a[0], b[1] - a[1]
            # normal (not normalised): bulge is a fraction of the edge length
            nx, ny = ey, -ex
            if degree == 2 or rng.random() < 0.3:
                if rng.random() < 0.25:
                    chain.append((a, b))  # mixed degrees happen in real data
                    continue
                t = Fraction(rng.randint(-2, 2), 12)
                m = ((a[0] + b[0]) / 2 if numeric != "int" else Fraction(a[0] + b[0], 2),
                     (a[1] + b[1]) / 2 if numeric != "int" else Fraction(a[1] + b[1], 2))
                c1 = (m[0] + t * nx, m[1] + t * ny)
                chain.append((a, c1, b))
            else:
                t1 = Fraction(rng.randint(-2, 2), 14)
                t2 = Fraction(rng.randint(-2, 2), 14)
                c1 = (a[0] + Fraction(1, 3) * ex + t1 * nx, a[1] + Fraction(1, 3) * ey + t1 * ny)
                c2 = (a[0] + Fraction(2, 3) * ex + t2 * nx, a[1] + Fraction(2, 3) * ey + t2 * ny)
                chain.append((a, c1, c2, b))
        if all(len(s) == 2 for s in chain):
            continue
        chain = tuple(chain)
        flat = kernel.flatten_chain(chain, 1e-3)
        if len(flat) < 3 or not _simple_float(flat):
            continue
        if kernel.chain_area(chain) <= 0:
            continue
        # curved data are always floats: the library runs Newton iterations in exact
        # arithmetic on rational curved segments, whose cost explodes (minutes per call)
        chain = tuple(tuple((float(x), float(y)) for x, y in seg) for seg in chain)
        return chain
    return None


def spandrel(rng, center=None):
    """A corner closed by a quadratic arc whose middle control point coincides with the
    corner vertex: two distinct control points with equal coordinates (legal, and the
    classic way a fillet is drawn).  Float chain, counter-clockwise."""
    cx, cy = center if center is not None else (rng.uniform(-3, 3), rng.uniform(-3, 3))
    ang = rng.uniform(0, math.tau)
    la, lc = rng.uniform(1.5, 4), rng.uniform(1.5, 4)
    spread = rng.uniform(1.0, 2.2)
    b = (cx, cy)
    a = (cx + la * math.cos(ang + spread), cy + la * math.sin(ang + spread))
    c = (cx + lc * math.cos(ang), cy + lc * math.sin(ang))
    # triangle c, a, b is counter-clockwise for 0 < spread < pi
    return ((c, (b[0], b[1]), a), (a, b), (b, c))


def dome(rng, center=None):
    """A base edge closed by one tall, narrow parabolic arc (a strongly curved quadratic
    segment: its two legs are far apart in parameter but close in space).  Float chain, ccw."""
    cx, cy = center if center is not None else (rng.uniform(-3, 3), rng.uniform(-3, 3))
    w = rng.uniform(0.8, 2.5)
    h = rng.uniform(4, 12) * w
    a, b = (cx, cy), (cx + w, cy)
    return ((a, b), (b, (cx + w / 2 + rng.uniform(-0.2, 0.2) * w, cy + h), a))


def _simple_float(poly):
    n = len(poly)
    for i in range(n):
        p0, p1 = poly[i], poly[(i + 1) % n]
        for j in range(i + 2, n):
            if (j + 1) % n == i:
                continue
            q0, q1 = poly[j], poly[(j + 1) % n]
            if kernel._segments_touch(p0, p1, q0, q1):
                return False
    return True


def inner_polygon(rng, outer_verts, numeric="frac"):
    """A small polygon strictly inside `outer_verts` (rational) with clearance; None if
    none was found."""
    n = len(outer_verts)
    cx = sum(float(v[0]) for v in outer_verts) / n
    cy = sum(float(v[1]) for v in outer_verts) / n
    opoly = [(float(x), float(y)) for x, y in outer_verts]
    for _ in range(30):
        px = cx + rng.uniform(-0.5, 0.5)
        py = cy + rng.uniform(-0.5, 0.5)
        if kernel.winding_polygon(opoly, (px, py)) != 1:
            continue
        room = kernel.dist_to_polys((px, py), [opoly])
        if room < 0.9:
            continue
        r = min(room * 0.55, 1.5)
        verts = polygon(rng, numeric if numeric != "float" else "frac", 3, 5, (px, py),
                        rmin=r * 0.5, rmax=r, tries=20)
        fl = [(float(x), float(y)) for x, y in verts]
        if all(kernel.winding_polygon(opoly, p) == 1 for p in fl) and min(
            kernel.dist_to_polys(p, [opoly]) for p in fl
        ) > 0.2:
            return verts
    return None


def clear_point(val, p, margin):
    """p keeps `margin` away from the convex hull of every segment's control points
    (so every split / chord representation of the boundary winds about p alike)."""
    px, py = float(p[0]), float(p[1])
    for chain in kernel.chains_of(val):
        for seg in chain:
            pts = [(float(x), float(y)) for x, y in seg]
            if len(pts) == 2:
                if kernel._dist_point_segment((px, py), pts[0], pts[1]) < margin:
                    return False
                continue
            hull = _convex_hull(pts)
            if len(hull) >= 3 and kernel.winding_polygon(hull, (px, py)) != 0:
                return False
            if kernel.dist_to_polys((px, py), [hull]) < margin:
                return False
    return True


def _convex_hull(pts):
    pts = sorted(set(pts))
    if len(pts) <= 2:
        return pts

    def cross(o, a, b):
        return (a[0] - o[0]) * (b[1] - o[1]) - (a[1] - o[1]) * (b[0] - o[0])

    lower = []
    for p in pts:
        while len(lower) >= 2 and cross(lower[-2], lower[-1], p) <= 0:
            lower.pop()
        lower.append(p)
    upper = []
    for p in reversed(pts):
        while len(upper) >= 2 and cross(upper[-2], upper[-1], p) <= 0:
            upper.pop()
        upper.append(p)
    return lower[:-1] + upper[:-1]


def query_points(rng, vals, count, exact, numeric="frac"):
    """Query points for containment: for exact data, points exactly on the model boundary
    (vertices, edge mid-points) and rational points with a margin; otherwise margin
    points only.  Returned as plain numbers of the requested numeric type."""
    chains = [c for v in vals for c in kernel.chains_of(v)]
    if not chains:
        return [(_snap(rng.uniform(-3, 3), "frac"), _snap(rng.uniform(-3, 3), "frac"))
                for _ in range(count)]
    x0, y0, x1, y1 = kernel.bbox(chains)
    d = kernel.diam(chains)
    curved = not all(kernel.is_polygonal(v) for v in vals)
    margin = (2e-2 if curved else 1e-3) * d
    out = []
    guard = 0
    while len(out) < count and guard < 200:
        guard += 1
        mode = rng.random()
        if exact and mode < 0.3:
            ch = chains[rng.randrange(len(chains))]
            seg = ch[rng.randrange(len(ch))]
            if mode < 0.15:
                out.append((seg[0][0], seg[0][1]))
            else:
                out.append(((seg[0][0] + seg[-1][0]) / 2, (seg[0][1] + seg[-1][1]) / 2))
            continue
        px = rng.uniform(x0 - 0.2 * d, x1 + 0.2 * d)
        py = rng.uniform(y0 - 0.2 * d, y1 + 0.2 * d)
        if exact or numeric in ("int", "frac"):
            p = (Fraction(int(round(px * 24)), 24), Fraction(int(round(py * 24)), 24))
        else:
            p = (px, py)
        if all(clear_point(v, p, margin) for v in vals):
            out.append(p)
    return out
