"""C11 -- a call that raises or is interrupted leaves its operands intact (DESIGN 5).

Crash-point injection: an exception is raised at the k-th monitored interpreter event
inside a non-mutating operation; afterwards the operands must still denote their
regions, answer a panel of queries as before and exactly as their deep copies do, and
fresh objects must be unaffected (no poisoned module table)."""
from __future__ import annotations

import copy as _copy
import faulthandler
import hashlib
import json
import multiprocessing
import os
import random
import sys
import time
import traceback
from concurrent.futures import ProcessPoolExecutor, as_completed
from fractions import Fraction

from . import faults, gen, kernel, model, ops

F = Fraction
TASK_WALL = 1500


# ------------------------------------------------------------------ values
def _sq(side, cx=0, cy=0, rev=False):
    h = F(side) / 2
    cx, cy = F(cx), F(cy)
    vs = [(cx - h, cy - h), (cx + h, cy - h), (cx + h, cy + h), (cx - h, cy + h)]
    ch = gen.poly_chain(vs)
    return gen.reverse_chain(ch) if rev else ch


def _fl(chain):
    return tuple(tuple((float(x), float(y)) for x, y in seg) for seg in chain)


def _rot(chain, ang):
    import math

    c, s = math.cos(ang), math.sin(ang)
    return tuple(tuple((c * float(x) - s * float(y), s * float(x) + c * float(y)) for x, y in seg) for seg in chain)


def _circle(r, cx, cy, ndiv):
    from shapepy import Primitive

    return model.value(Primitive.circle(r, (cx, cy), ndiv))[1]


def catalogue():
    S = lambda ch: ("S", ch)  # noqa: E731
    big = S(_sq(6))
    big10 = S(_sq(12))
    sq2 = S(_sq(2))
    sq2b = S(_sq(2, 1, 1))
    small = S(_sq(1))
    far = S(_sq(1, 5, 0))
    hollow = ("C", (S(_sq(4)), S(_sq(2, rev=True))))
    hollow_b = ("C", (S(_sq(4, 1, 1)), S(_sq(2, 1, 1, rev=True))))
    ringpiece = S(_sq(F(1, 2), F(3, 2), 0))
    disj = ("D", (S(_sq(2, -3, 0)), S(_sq(1, 3, 0))))
    disj2 = ("D", (S(_sq(2, -3, 0)), S(_sq(1, 3, 0))))
    tri = S(gen.poly_chain([(F(-1), F(-1)), (F(3), F(0)), (F(0), F(5, 2))]))
    trif = S(_rot(tri[1], 0.3))
    sqf = S(_rot(_sq(2, 1, 0), 1.1))
    jsq = ("J", _sq(2))
    jsqb = ("J", _sq(2, 1, 1))
    sq2_rot = S(tuple(list(_sq(2))[2:] + list(_sq(2))[:2]))
    cases = []

    def add(name, operands, step, presplit=()):
        st = dict(step)
        st.setdefault("a", 0)
        if len(operands) > 1:
            st.setdefault("b", 1)
        cases.append({"name": name, "operands": [model.jsonable(v) for v in operands],
                      "presplit": [list(p) for p in presplit], "step": st})

    add("connected in simple", [big, hollow], {"op": "in_shape"})
    add("simple in connected", [hollow, ringpiece], {"op": "in_shape"})
    add("disjoint in simple", [big10, disj], {"op": "in_shape"})
    add("simple in disjoint", [disj, S(_sq(1, -3, 0))], {"op": "in_shape"})
    add("connected in connected", [("C", (S(_sq(8)), S(_sq(1, rev=True)))), hollow], {"op": "in_shape"})
    add("hollow | inner piece", [hollow, ringpiece], {"op": "or"})
    add("simple | connected (contained)", [big, hollow], {"op": "or"})
    add("simple & connected (contained)", [big, hollow], {"op": "and"})
    add("squares |", [sq2, sq2b], {"op": "or"})
    add("squares &", [sq2, sq2b], {"op": "and"})
    add("squares -", [sq2, sq2b], {"op": "sub"})
    add("squares ^", [sq2, sq2b], {"op": "xor"})
    add("squares | presplit", [sq2, sq2b], {"op": "or"},
        presplit=[(0, 0, [1, 2], ["1/2", "1/3"]), (1, 0, [0], ["1/4"])])
    add("hollow & hollow crossing", [hollow, hollow_b], {"op": "and"})
    add("disjoint | simple", [disj, sq2], {"op": "or"})
    add("~connected", [hollow], {"op": "inv"})
    add("~disjoint", [disj], {"op": "neg"})
    add("connected == connected", [hollow, hollow], {"op": "eq"})
    add("disjoint == disjoint", [disj, disj2], {"op": "eq"})
    add("simple == simple (rotated start)", [sq2, sq2_rot], {"op": "eq"})
    add("simple != simple", [sq2, sq2b], {"op": "ne"})
    add("jordan in simple", [big, sq2], {"op": "contains_jordan", "k": 0, "boundary": True})
    add("jordan in connected", [hollow, ringpiece], {"op": "contains_jordan", "k": 0, "boundary": False})
    add("deepcopy(disjoint)", [disj], {"op": "deepcopy"})
    add("copy(connected)", [hollow], {"op": "copy"})
    add("SimpleShape(jordan)", [jsq], {"op": "simple_from_jordan", "k": 0})
    add("float(connected)", [hollow], {"op": "area"})
    add("moment(disjoint)", [disj], {"op": "moment", "ea": 1, "eb": 1})
    add("point in connected", [hollow], {"op": "contains_point", "p": ["3/2", "1/3"], "boundary": True})
    add("boundary point in disjoint", [disj], {"op": "in_point", "p": [-2, "1/2"]})
    add("jordan & jordan", [jsq, jsqb], {"op": "jand", "ka": 0, "kb": 0})
    add("jordan.intersection", [sq2, sq2b], {"op": "jinter", "ka": 0, "kb": 0, "equal_beziers": True, "end_points": True})
    add("float(jordan)", [jsq], {"op": "jlen", "k": 0})
    add("jordan.box", [jsqb], {"op": "box"})
    add("jordan.points", [jsq], {"op": "points", "k": 0, "n": 2})
    add("~jordan", [jsq], {"op": "jinv", "k": 0})
    add("abs(jordan)", [("J", _sq(2, rev=True))], {"op": "jabs", "k": 0})
    add("jordan == jordan", [jsq, ("J", sq2_rot[1])], {"op": "eq"})
    add("empty | simple", ["E", sq2], {"op": "or"})
    add("whole & connected", ["W", hollow], {"op": "and"})
    add("simple - whole", [sq2, "W"], {"op": "sub"})
    add("float triangles -", [trif, sqf], {"op": "sub"})
    add("float triangles ^", [trif, sqf], {"op": "xor"})
    add("circle & square", [S(_circle(1.0, 0.04, 0.18, 4)), S(_fl(_sq(F(3, 2), 1, 0)))], {"op": "and"})
    add("circle | circle", [S(_circle(1.0, 0.0, 0.0, 4)), S(_circle(0.8, 1.0, 0.1, 4))], {"op": "or"})
    add("point in circle", [S(_circle(1.0, 0.0, 0.0, 8))], {"op": "in_point", "p": [{"f": (0.3).hex()}, {"f": (0.2).hex()}]})
    add("plot(connected)", [hollow], {"op": "plot"})
    add("str(simple)", [sq2], {"op": "str"})
    add("far squares |", [sq2, far], {"op": "or"})
    add("small in square &", [sq2, small], {"op": "and"})
    return cases


# ------------------------------------------------------------------ a case
def build_case(case):
    objs = [model.fresh(model.from_jsonable(v)) for v in case["operands"]]
    for oi, k, idx, nodes in case.get("presplit", []):
        ops.jordan_of(objs[oi], k).split(list(idx), [ops.num(n) for n in nodes])
    return objs


def operand_list(case, objs):
    st = case["step"]
    out = [objs[st["a"]]]
    if "b" in st:
        out.append(objs[st["b"]])
    return out


PANEL_POINTS = [(F(1, 3), F(1, 7)), (F(5, 2), F(-1, 3)), (F(-7, 2), F(1, 5)), (F(21, 2), F(9))]


def panel(objs):
    """A panel of query answers on the operands (normalised, bitwise + plain)."""
    out = []
    for o in objs:
        if model.is_defined(o):
            for fn in (
                lambda: float(o),
                lambda: tuple(float(j) for j in o.jordans),
                lambda: [o.contains_point(p, True) for p in PANEL_POINTS],
                lambda: [o.contains_point(p, False) for p in PANEL_POINTS],
            ):
                out.append(_ask(fn))
        elif isinstance(o, type(None)):
            pass
        elif model.is_shape(o):
            out.append(_ask(lambda: float(o)))
        else:  # JordanCurve
            out.append(_ask(lambda: float(o)))
            out.append(_ask(lambda: [p in o for p in PANEL_POINTS]))
    return out


def _is_length_entry(objs, qi):
    """Index qi of panel(objs) is a signed-length entry."""
    i = 0
    for o in objs:
        if model.is_defined(o):
            if qi == i + 1:
                return True
            i += 4
        elif model.is_shape(o):
            i += 1
        else:
            if qi == i:
                return True
            i += 2
    return False


def _ask(fn):
    try:
        return ("ok", _plain(fn()))
    except Exception as e:  # noqa: BLE001
        return ("raise", type(e).__name__)


def _plain(x):
    if isinstance(x, (list, tuple)):
        return tuple(_plain(v) for v in x)
    import numpy as np

    if isinstance(x, (bool, np.bool_)):
        return bool(x)
    if isinstance(x, (float, np.floating)):
        return ("f", float(x).hex())
    return x


def _plain_close(a, b, rel):
    if isinstance(a, tuple) and a and a[0] == "f" and isinstance(b, tuple) and b and b[0] == "f":
        fa, fb = float.fromhex(a[1]), float.fromhex(b[1])
        if fa == fb:  # also infinities (the area of WholeShape)
            return True
        return abs(fa - fb) <= rel * max(abs(fa), abs(fb), 1e-300)
    if isinstance(a, tuple) and isinstance(b, tuple):
        return len(a) == len(b) and all(_plain_close(x, y, rel) for x, y in zip(a, b))
    return a == b


def fingerprint(objs):
    fp = []
    for o in objs:
        if isinstance(model.value(o), str):
            fp.append(model.value(o))
            continue
        v = model.value(o)
        chains = kernel.chains_of(v)
        fp.append(tuple(
            (kernel.closed_by_value(ch),
             _shoelace_sign(ch))
            for ch in chains))
    return tuple(fp)


def _shoelace_sign(chain):
    pts = [p for seg in chain for p in seg[:-1]]
    s = 0.0
    n = len(pts)
    for i in range(n):
        s += float(pts[i][0]) * float(pts[(i + 1) % n][1]) - float(pts[(i + 1) % n][0]) * float(pts[i][1])
    return s > 0


def hidden_fingerprint(objs):
    """Scalar private attributes (caches, flags) reachable from the operands, by reflection:
    used only to *place* faults in the windows where such state is being written."""
    from shapepy.polygon import Point2D

    out = []
    seen = set()

    def walk(o, depth):
        if id(o) in seen or depth > 5:
            return
        seen.add(id(o))
        try:
            items = sorted(vars(o).items())
        except TypeError:
            return
        for k, v in items:
            if isinstance(v, (type(None), bool, int, float, str, Fraction)):
                out.append((type(o).__name__, k, repr(v)))
            elif isinstance(v, Point2D):
                continue
            elif type(v).__name__ == "Box":
                try:
                    out.append((type(o).__name__, k, repr((v.lowpt[0], v.lowpt[1], v.toppt[0], v.toppt[1]))))
                except Exception:  # noqa: BLE001
                    out.append((type(o).__name__, k, "Box?"))
            elif isinstance(v, (tuple, list)):
                for x in v:
                    if type(x).__module__.startswith("shapepy") and not isinstance(x, Point2D):
                        walk(x, depth + 1)
            elif type(v).__module__.startswith("shapepy"):
                walk(v, depth + 1)

    for o in objs:
        walk(o, 0)
    return tuple(out)


_TABLES = None


def _tables_fingerprint():
    """Cheap: the sizes of the module-level tables (an entry appearing marks the window in
    which a table is being filled; the plan widens the window on both sides)."""
    global _TABLES
    if _TABLES is None:
        _TABLES = [t for _o, _n, t in faults.module_dicts() if isinstance(t, dict)]
    return tuple(len(t) for t in _TABLES)


def count_pass(case, mode="structural", cold=False):
    """Fault-free run under the monitor: number of events, sites, dirty windows, the
    reference result and reference panel.  cold=True: nothing is asked of the operands
    before the call, so the module-level memo tables are empty when it starts."""
    faults.cache_drop()
    objs = build_case(case)
    vals = [model.value(o) for o in objs]
    pan0 = None if cold else panel(objs)
    mon = faults.Monitor.get()
    operands = operand_list(case, objs)
    fp0 = fingerprint(objs)
    dirty = []

    def watch(n):
        if fingerprint(objs) != fp0:
            dirty.append(n)

    last = [_tables_fingerprint()]

    def watch_tables(n):
        fp = _tables_fingerprint()
        if fp != last[0]:
            last[0] = fp
            dirty.append(n)

    hidden = []
    lasth = [hidden_fingerprint(objs)]

    def watch_structural(n):
        watch(n)
        fp = hidden_fingerprint(objs)
        if fp != lasth[0]:
            lasth[0] = fp
            hidden.append(n)

    mon_mode = "structural" if mode == "structural-cold" else mode
    outcome, payload, info = mon.run(lambda: ops.perform(case["step"], operands), mode=mon_mode,
                                     trace=True,
                                     watch=watch_structural if mon_mode == "structural" else (watch_tables if mode == "tables" else None))
    ans = ops.normalise(outcome, payload)
    if cold:
        faults.cache_drop()
        pan0 = panel(build_case(case))
    return {"count": info["count"], "trace": info["trace"], "dirty": dirty, "answer": ans,
            "panel": pan0, "values": vals, "hidden": hidden, "globals": faults.global_scalars()}


def inject(case, k, mode, exc_name, ref, deep, k2=None, cold=False):
    """One injection.  Returns (status, detail): status in fired-ok / not-fired / swallowed-ok
    / VIOLATION."""
    faults.cache_drop()
    objs = build_case(case)
    vals = [model.value(o) for o in objs]
    check_fresh = deep or mode == "tables"
    if cold:
        pan_before = ref["panel"]  # answers of never-touched operands, from the reference pass
    else:
        pan_before = panel(objs)
        if pan_before != ref["panel"]:
            return "HARNESS", "panel before the call differs from the reference pass (non-determinism)", None
    mon = faults.Monitor.get()
    operands = operand_list(case, objs)
    exc = faults.ERROR_KINDS[exc_name]
    mon_mode = "structural" if mode == "structural-cold" else mode
    outcome, payload, info = mon.run(lambda: ops.perform(case["step"], operands), mode=mon_mode,
                                     target=k, exc=exc)
    if not info["fired"]:
        return "not-fired", "", None
    site = info["fired_site"]
    gl = faults.global_scalars()
    if gl != ref["globals"]:
        diff = sorted(k for k in set(gl) | set(ref["globals"]) if gl.get(k) != ref["globals"].get(k))
        return "VIOLATION", ("module-level configuration left changed after the fault: " +
                             ", ".join(f"{k}: {ref['globals'].get(k)} -> {gl.get(k)}" for k in diff[:4])), site
    status = "fired-ok" if outcome == "raise" else "swallowed-ok"
    if k2 is not None:
        # fault sequence: a second fault in the same operation on the surviving operands
        outcome2, payload2, info2 = mon.run(lambda: ops.perform(case["step"], operands), mode=mon_mode,
                                            target=k2, exc=exc)
        if info2["fired"]:
            site = info2["fired_site"]
            status = "fired-ok" if outcome2 == "raise" else "swallowed-ok"
    tol = kernel.Tol(*[v for v in vals if not isinstance(v, str)]) if any(
        not isinstance(v, str) for v in vals) else None
    exact = tol is None or (tol.exact and all(kernel.max_denominator(v) <= 10**4 for v in vals
                                              if not isinstance(v, str)))
    # 1. operands still denote their regions
    for i, (o, v0) in enumerate(zip(objs, vals)):
        try:
            v1 = model.value(o)
        except Exception as e:  # noqa: BLE001
            return "VIOLATION", f"operand {i} cannot be read after the fault: {type(e).__name__}: {e}", site
        if kernel.kind(v1) != kernel.kind(v0):
            return "VIOLATION", f"operand {i} changed kind", site
        if isinstance(v1, str):
            continue
        if model.value_bits(v1) == model.value_bits(v0) and model.bits(o) == model.value_bits(v0):
            continue
        if not model.well_formed_numbers(v1):
            return "VIOLATION", f"operand {i} holds malformed numbers", site
        for ch in kernel.chains_of(v1):
            if not kernel.closed_by_value(ch):
                return "VIOLATION", f"operand {i}: a boundary chain is no longer closed", site
        if len(kernel.chains_of(v1)) != len(kernel.chains_of(v0)) or \
                kernel.orientation_signs(v1) != kernel.orientation_signs(v0):
            return "VIOLATION", (f"operand {i}: orientation {kernel.orientation_signs(v1)} "
                                 f"was {kernel.orientation_signs(v0)}"), site
        ok, why = kernel.same_region(v1, v0)
        if not ok:
            return "VIOLATION", f"operand {i} no longer denotes its region: {why}", site
    # 2a. answers as before
    pan_after = panel(objs)
    curved = bool(tol and tol.curved)
    for qi, (qa, qb) in enumerate(zip(pan_after, pan_before)):
        # the library's own quadrature of a curved length depends on how the arcs are cut
        rel = 1e-9 if not curved else (1e-1 if _is_length_entry(objs, qi) else 1e-5)
        same = (qa == qb) if exact else (qa[0] == qb[0] and _plain_close(qa[1], qb[1], rel))
        if not same:
            return "VIOLATION", f"a query on the operands answers {qa!r}, before the call {qb!r}", site
    # 2b. exactly as their deep copies do (no hidden state left behind)
    try:
        twins = _copy.deepcopy(objs)
    except Exception as e:  # noqa: BLE001
        return "VIOLATION", f"deepcopy of the operands raises {type(e).__name__} after the fault", site
    lossless = all(model.bits(a) == model.bits(b) for a, b in zip(objs, twins))
    if lossless and panel(twins) != pan_after:
        return "VIOLATION", "operands answer differently from their deep copies after the fault", site
    if deep:
        live_ops = operand_list(case, objs)
        twin_ops = operand_list(case, twins)
        a1 = ops.normalise(*_run(case["step"], live_ops))
        a2 = ops.normalise(*_run(case["step"], twin_ops))
        if lossless and a1[1] != a2[1]:
            return "VIOLATION", (f"re-running the operation: live operands give {a1[0]} {str(a1[2])[:120]}, "
                                 f"their deep copies {a2[0]} {str(a2[2])[:120]}"), site
        if exact and ref["answer"][0] == a1[0] == "shape":
            ok, why = kernel.same_region(a1[2], ref["answer"][2]) if not isinstance(a1[2], str) and not isinstance(ref["answer"][2], str) else (a1[2] == ref["answer"][2], "singleton")
            if not ok:
                return "VIOLATION", f"re-running the operation on the operands gives another region: {why}", site
        elif exact and ref["answer"][0] in ("bool", "num", "raise") and a1[0] == ref["answer"][0]:
            if a1[2] != ref["answer"][2]:
                return "VIOLATION", f"re-running the operation answers {a1[2]!r}, fault-free it answered {ref['answer'][2]!r}", site
    if check_fresh:
        # 3. fresh objects unaffected (module tables)
        objs2 = build_case(case)
        if panel(objs2) != ref["panel"]:
            return "VIOLATION", "fresh objects answer the panel differently after the fault (poisoned module state)", site
        a3 = ops.normalise(*_run(case["step"], operand_list(case, objs2)))
        if a3[1] != ref["answer"][1]:
            return "VIOLATION", "the operation on fresh operands gives a different answer after the fault (poisoned module state)", site
    return status, "", site


def _run(step, objs):
    try:
        return "return", ops.perform(step, objs)
    except Exception as e:  # noqa: BLE001
        return "raise", e


# ------------------------------------------------------------------ bad arguments
def badarg_targets():
    S = lambda ch: ("S", ch)  # noqa: E731
    return [
        ("simple-frac", S(_sq(2, 1, 1))),
        ("simple-float", S(_rot(_sq(2, 1, 0), 0.7))),
        ("connected", ("C", (S(_sq(4)), S(_sq(2, rev=True))))),
        ("disjoint", ("D", (S(_sq(2, -3, 0)), S(_sq(1, 3, 0))))),
        ("jordan", ("J", _sq(2))),
        ("circle", S(_circle(1.0, 0.0, 0.5, 4))),
        # float points before rational ones (a float circle with a rational square hole; a
        # polygon given with mixed float / int vertices keeps both kinds of Point2D)
        ("float-circle-rational-hole", ("C", (S(_circle(3.0, 0.0, 0.0, 4)), S(_sq(1, rev=True))))),
        ("mixed-polygon", S(gen.poly_chain([(0.5, 1.25), (F(3), F(0)), (F(2), F(2))]))),
        # ... and rational points before float ones
        ("rational-square-float-hole", ("C", (S(_sq(8)), S(gen.reverse_chain(_circle(1.0, 0.0, 0.0, 4)))))),
        ("ring-with-tiny-hole", ("C", (S(_sq(4)), S(_sq(F(1, 100), rev=True))))),
        ("mixed-polygon-rational-first", S(gen.poly_chain([(F(0), F(0)), (F(3), F(0)), (2.5, 2.25), (0.5, 1.75)]))),
    ]


_FACTORY_IDS = {}


def id_of(fn):
    """Stable small number of a catalogue factory (its position among the factories)."""
    if not _FACTORY_IDS:
        n = 0
        for _m, a, _k in faults.badarg_catalogue():
            if callable(a):
                _FACTORY_IDS[a.__code__.co_firstlineno] = n
                n += 1
    return _FACTORY_IDS.get(fn.__code__.co_firstlineno, -1)


def badarg_check(jobs=1):
    """Every catalogue entry on every target: raise -> unchanged (bitwise, and the panel
    answers as before); accept -> counted."""
    targets = badarg_targets()
    if jobs <= 1:
        parts = [_badarg_part(i) for i in range(len(targets))]
    else:
        ctx = multiprocessing.get_context("fork")
        with ProcessPoolExecutor(max_workers=min(jobs, len(targets)), mp_context=ctx) as ex:
            parts = list(ex.map(_badarg_part, range(len(targets))))
    res = {"tried": 0, "rejected": 0, "accepted": 0, "violations": []}
    for part in parts:
        for k in ("tried", "rejected", "accepted"):
            res[k] += part[k]
        res["violations"].extend(part["violations"])
    return res


def _badarg_part(ti):
    res = {"tried": 0, "rejected": 0, "accepted": 0, "violations": []}
    for tname, val in badarg_targets()[ti:ti + 1]:
        for method, args, kwargs in faults.badarg_catalogue():
            label = repr(args) if not callable(args) else "<one-shot iterable #%d>" % id_of(args)
            if callable(args):
                args = args()
            obj = model.fresh(val)
            before = model.bits(obj)
            pan0 = panel([obj])
            res["tried"] += 1
            try:
                getattr(obj, method)(*args, **kwargs)
            except Exception as e:  # noqa: BLE001
                res["rejected"] += 1
                after = model.bits(obj)
                if after != before:
                    res["violations"].append({
                        "target": tname, "method": method, "args": label, "kwargs": repr(kwargs),
                        "details": f"{method}{label} raised {type(e).__name__} but the shape changed",
                    })
                    continue
                if panel([obj]) != pan0:
                    res["violations"].append({
                        "target": tname, "method": method, "args": label, "kwargs": repr(kwargs),
                        "details": f"{method}{label} raised {type(e).__name__}; the shape answers differently afterwards",
                    })
                continue
            res["accepted"] += 1
    return res


# ------------------------------------------------------------------ generated cases
def _generated_case(seed, run):
    """One operand set taken from a seeded history (values read off the live heap, so they
    carry the splits earlier operators left) combined with a non-mutating step; or None."""
    from .schedule import Scheduler
    from .world import World

    sched = Scheduler("C10", f"c11:{seed}", run)
    world = World(check_t1=False, check_t2=False)
    try:
        for _ in range(sched.cfg["nsteps"]):
            step = sched.next_step(world)
            if step is None:
                break
            if "macro" in step:
                step = sched.resolve_macro(world, step)
                if step is None:
                    continue
            for key in ("t1", "t2", "repeat"):
                if key in step:
                    step[key] = False
            step.pop("drop", None)
            step.pop("fault", None)
            world.execute(step)
    except Exception:  # noqa: BLE001 - whatever the history hit, we only harvest operands
        pass
    if len(world.slots) < 1:
        return None
    r = sched.rng
    sched.pending = []
    for _try in range(6):
        kind = r.choice(["operator", "operator", "bquery", "uquery", "copy"])
        st = getattr(sched, kind + "_step")(world)
        sched.pending = []
        if st is None or st["op"] in ("plot",):
            continue
        names = [st["a"]] + ([st["b"]] if "b" in st else [])
        vals = []
        okv = True
        for nme in names:
            v = model.value(world.slots[nme].live)
            if not isinstance(v, str) and not kernel.sane(v):
                okv = False
            vals.append(v)
        if not okv:
            continue
        if not all(isinstance(v, str) or kernel.is_polygonal(v) for v in vals) and \
                st["op"] in ops.BINARY_OPERATORS + ops.BINARY_QUERIES:
            if r.random() < 0.7:
                continue  # curved binary steps are slow: keep a few
        st = {k: v for k, v in st.items() if k not in ("t1", "t2", "repeat", "drop", "dst", "fault")}
        st["a"] = 0
        if "b" in st:
            st["b"] = 1 if len(names) > 1 and names[1] != names[0] else 0
        ops_vals = vals if ("b" in st and st["b"] == 1) else vals[:1]
        return {"name": f"gen-{seed}-{run}:{st['op']}",
                "operands": [model.jsonable(v) for v in ops_vals], "presplit": [], "step": st}
    return None


def _generated_chunk(seed, runs):
    faulthandler.dump_traceback_later(TASK_WALL, exit=True)
    try:
        return [(run, _generated_case(seed, run)) for run in runs]
    finally:
        faulthandler.cancel_dump_traceback_later()


def generated_cases(seed, n, jobs=1):
    """n generated cases, from run indices 1.. in order (independent of the worker count)."""
    runs = list(range(1, 2 * n + 9))
    found = {}
    if jobs <= 1:
        for run in runs:
            found[run] = _generated_case(seed, run)
    else:
        ctx = multiprocessing.get_context("fork")
        chunks = [runs[i:i + 3] for i in range(0, len(runs), 3)]
        with ProcessPoolExecutor(max_workers=jobs, mp_context=ctx) as ex:
            for part in ex.map(_generated_chunk, [seed] * len(chunks), chunks):
                for run, case in part:
                    found[run] = case
    cases = [found[run] for run in runs if found.get(run) is not None]
    return cases[:n]


# ------------------------------------------------------------------ driver
def _worker_task(case, ks, mode, excs, deep_every):
    faulthandler.dump_traceback_later(TASK_WALL, exit=True)
    out = {"fired": 0, "not_fired": 0, "swallowed": 0, "violations": [], "harness": [], "sites": set(),
           "by_exc": {}}
    t_task = time.time()
    cold = mode in ("tables", "structural-cold")
    try:
        ref = count_pass(case, mode, cold=cold)
        for i, k in enumerate(ks):
            exc = excs[i % len(excs)]
            deep = (k % deep_every) == 0
            k2 = None
            if mode == "structural" and i % 5 == 4 and ref["count"] > 1:
                # every fifth injection is a sequence of two faults
                k2 = 1 + (k * 7919 + i) % ref["count"]
                out["sequences"] = out.get("sequences", 0) + 1
            try:
                status, detail, site = inject(case, k, mode, exc, ref, deep, k2, cold=cold)
            except Exception:  # noqa: BLE001
                out["harness"].append(f"{case['name']} k={k}: {traceback.format_exc()[-600:]}")
                continue
            if status == "not-fired":
                out["not_fired"] += 1
                continue
            if status == "HARNESS":
                out["harness"].append(f"{case['name']} k={k}: {detail}")
                continue
            out["fired"] += 1
            out["by_exc"][exc] = out["by_exc"].get(exc, 0) + 1
            if site:
                out["sites"].add((site[1], site[2], site[3], site[0]))
            if status == "swallowed-ok":
                out["swallowed"] += 1
            if status == "VIOLATION":
                out["violations"].append({"case": case["name"], "k": k, "k2": k2, "mode": mode, "exc": exc,
                                          "site": list(site) if site else None, "details": detail})
    finally:
        faulthandler.cancel_dump_traceback_later()
    out["sites"] = sorted(out["sites"])
    out["wall"] = time.time() - t_task
    return out


def _count_task(case, which):
    """One reference pass of a case (run as separate tasks so that the four passes of an
    expensive case proceed in parallel)."""
    faulthandler.dump_traceback_later(TASK_WALL, exit=True)
    try:
        if which == "structural":
            ref = count_pass(case, "structural")
            return {"structural": ref["count"], "dirty": ref["dirty"], "hidden": ref["hidden"],
                    "answer_kind": ref["answer"][0]}
        if which == "all":
            return {"all": count_pass(case, "all")["count"]}
        if which == "cold":
            coldp = count_pass(case, "structural-cold", cold=True)
            return {"cold": coldp["count"], "cold_hidden": coldp["hidden"]}
        tab = count_pass(case, "tables", cold=True)
        return {"tables": tab["count"], "tables_dirty": tab["dirty"]}
    finally:
        faulthandler.cancel_dump_traceback_later()


def check(tier, seed, jobs):
    from . import main as M

    t0 = time.time()
    src = M.assert_repo_tree()
    print(f"SEED {seed} property=C11 tier={tier} jobs={jobs} shapepy={src}")
    rng = random.Random(f"{seed}:C11")
    cat = catalogue()
    ngen = 24 if tier == "quick" else 160
    gens = generated_cases(seed, ngen, jobs)
    cases = cat + gens
    ctx = multiprocessing.get_context("fork")
    harness = []
    counts = {}
    with ProcessPoolExecutor(max_workers=jobs, mp_context=ctx) as ex:
        futs = {}
        for i, c in enumerate(cases):
            for which in (("all", "structural", "cold", "tables") if i < len(cat) else ("all", "structural")):
                futs[ex.submit(_count_task, c, which)] = (i, which)
        failed = set()
        for fut in as_completed(futs):
            i, which = futs[fut]
            try:
                counts.setdefault(i, {}).update(fut.result())
            except Exception as e:  # noqa: BLE001
                failed.add(i)
                harness.append(f"count pass ({which}) of {cases[i]['name']}: {type(e).__name__}: {e}")
        for i in failed:
            counts.pop(i, None)
    t_counts = time.time() - t0
    # plan the crash points
    tasks = []
    plan = {}
    stride = 16 if tier == "quick" else 1
    offset = seed % stride
    for i, c in enumerate(cases):
        if i not in counts:
            continue
        n = counts[i]["structural"]
        is_cat = i < len(cat)
        if is_cat:
            curved = not all(isinstance(v, str) or kernel.is_polygonal(model.from_jsonable(v))
                             for v in c["operands"])
            if tier == "thorough":
                wthor = max(1.0, counts[i]["all"] / 300000.0)
                if n > 10000 or curved:
                    want = max(150, int(6000 / wthor))
                else:
                    want = n
            else:
                # quick: a budget of roughly a minute of CPU per case; one injection costs
                # about all_events / 300k seconds
                weight = max(1.0, counts[i]["all"] / 300000.0)
                want = max(6, min(48, n // 16, int(90 / weight)))
            want = min(want, n)
            if want >= n:
                ks = list(range(1, n + 1))
            else:
                # evenly spaced, phase taken from the seed
                ks = sorted(set(1 + ((seed * 7 + (j * n) // want + (seed % max(1, n // want))) % n)
                                for j in range(want)))
            exhaustive = want >= n
            # dirty windows and their edges are always included
            d = counts[i]["dirty"]
            edge = set()
            for x in d:
                if x - 1 not in d or x + 1 not in d:
                    edge.update((x - 1, x, x + 1))
            extra = sorted(e for e in edge if 1 <= e <= n)
            if tier == "quick" and len(d) > 0:
                dsample = rng.sample(d, min(len(d), 40))
                extra = sorted(set(extra) | set(dsample))
            ks = sorted(set(ks) | set(extra))
        else:
            m = 24 if tier == "quick" else 120
            ks = sorted(set(rng.randint(1, max(1, n)) for _ in range(m)))
            exhaustive = False
        plan[i] = {"structural_events": n, "all_events": counts[i]["all"], "points": len(ks),
                   "exhaustive": exhaustive, "dirty_events": len(counts[i]["dirty"])}
        excs = ["interrupt", "interrupt", "memory", "assertion", "value", "type", "zerodiv"]
        chunk = 10 if counts[i]["all"] > 500000 else 40
        for j in range(0, len(ks), chunk):
            tasks.append((i, "structural", ks[j:j + chunk], excs))
        # cold start: every (quick: a spread of) event inside the functions that own a
        # module-level memo table, with nothing asked of the operands beforehand
        ntab = counts[i].get("tables", 0)
        if ntab and is_cat:
            weight = max(1.0, counts[i]["all"] / 300000.0)
            if tier == "thorough":
                want = min(ntab, max(60, int(4000 / weight)))  # all of them unless the case is expensive
            else:
                want = max(3, min(ntab, 12, int(40 / weight)))
            tk = set(1 + ((seed + (j * ntab) // want) % ntab) for j in range(want))
            # the windows in which a table is being filled (its content changes): every event
            # from shortly before the change to just after it
            for ev in counts[i].get("tables_dirty", []):
                lo = ev - (60 if tier == "thorough" else 24)
                hi = ev + (80 if tier == "thorough" else 40)
                step_w = (1 if weight < 4 else 3) if tier == "thorough" else (4 if weight < 4 else 10)
                tk.update(e for e in range(max(1, lo), min(ntab, hi) + 1, step_w))
            tk = sorted(tk)
            plan[i]["table_events"] = ntab
            plan[i]["table_points"] = len(tk)
            for j in range(0, len(tk), 12):
                tasks.append((i, "tables", tk[j:j + 12], ["interrupt", "memory"]))
        # cold start, structural events: the windows in which a private cache / flag of an
        # operand is being written (consecutive writes close together), plus a spread
        ncold = counts[i].get("cold", 0)
        if ncold and is_cat:
            hw = counts[i].get("cold_hidden", [])
            wcold0 = max(1.0, counts[i]["all"] / 300000.0)
            ck = set()
            for a_ev, b_ev in zip(hw[:-1], hw[1:]):
                if b_ev - a_ev <= 400:
                    stepw = (1 if wcold0 < 4 else 4) if tier == "thorough" else max(1, (b_ev - a_ev) // 12)
                    ck.update(range(a_ev, b_ev + 2, stepw))
            for ev in hw:
                ck.update((ev - 1, ev, ev + 1))
            want = min(ncold, max(30, int(600 / wcold0)) if tier == "thorough" else 10)
            ck.update(1 + ((seed * 13 + (j * ncold) // want) % ncold) for j in range(want))
            ck = sorted(e for e in ck if 1 <= e <= ncold)
            wcold = max(1.0, counts[i]["all"] / 300000.0)
            cap = max(4, min(36, int(60 / wcold)))
            if tier == "quick" and len(ck) > cap:
                ck = sorted(rng.sample(ck, cap))
            plan[i]["cold_points"] = len(ck)
            plan[i]["hidden_state_writes"] = len(hw)
            for j in range(0, len(ck), 20):
                tasks.append((i, "structural-cold", ck[j:j + 20], ["interrupt", "interrupt", "memory"]))
        # leaf events: seeded sample over all events
        nall = counts[i]["all"]
        m = (6 if tier == "quick" else 60) if is_cat else (3 if tier == "quick" else 12)
        lk = sorted(set(rng.randint(1, max(1, nall)) for _ in range(m)))
        tasks.append((i, "all", lk, ["interrupt", "memory"]))
    tasks.sort(key=lambda t: -counts[t[0]]["all"] * len(t[2]))  # expensive chunks first
    totals = {"fired": 0, "not_fired": 0, "swallowed": 0, "by_exc": {},
              "by_mode": {"structural": 0, "all": 0, "tables": 0, "structural-cold": 0}}
    sites = set()
    violations = []
    per_case_fired = {}
    deep_every = 4
    with ProcessPoolExecutor(max_workers=jobs, mp_context=ctx) as ex:
        futs = {ex.submit(_worker_task, cases[i], ks, mode, excs, deep_every): (i, mode)
                for (i, mode, ks, excs) in tasks}
        for fut in as_completed(futs):
            i, mode = futs[fut]
            try:
                out = fut.result()
            except Exception as e:  # noqa: BLE001
                harness.append(f"injection task of {cases[i]['name']}: {type(e).__name__}: {e}")
                continue
            totals["fired"] += out["fired"]
            totals["not_fired"] += out["not_fired"]
            totals["swallowed"] += out["swallowed"]
            totals["by_mode"][mode] += out["fired"]
            for k, v in out["by_exc"].items():
                totals["by_exc"][k] = totals["by_exc"].get(k, 0) + v
            per_case_fired[i] = per_case_fired.get(i, 0) + out["fired"]
            totals["sequences"] = totals.get("sequences", 0) + out.get("sequences", 0)
            plan[i]["cpu_s"] = round(plan[i].get("cpu_s", 0) + out["wall"], 1)
            sites.update(tuple(s) for s in out["sites"])
            for v in out["violations"]:
                v["case_index"] = i
                violations.append(v)
            harness.extend(out["harness"])
    t_inject = time.time() - t0 - t_counts
    bad = badarg_check(jobs)
    # phase 3: interrupted calls inside seeded histories (operands keep history and caches,
    # the history continues afterwards under the frame invariant and the twins)
    nhist = 160 if tier == "quick" else 9600
    hres, herr = M.run_batch("C11", seed, list(range(nhist)), jobs)
    harness.extend(herr)
    for r in hres:
        if r["error"]:
            harness.append(f"history run {r['run']}: {r['error'][-600:]}")
    hviol, hnew, hknown, hlines = M.triage("C11", seed, hres, tier)
    hstats = {}
    for r in hres:
        for k, v in r["stats"].items():
            if k.startswith("fault:"):
                hstats[k[6:]] = hstats.get(k[6:], 0) + v
    hist_fired = sum(v for k, v in hstats.items() if k.endswith("@k:fired"))
    t_hist = time.time() - t0 - t_counts - t_inject
    violations.sort(key=lambda v: (v["case_index"], v["mode"], v["k"]))
    # known findings / reporting
    known = M.load_known()
    lines = []
    new_viol = []
    known_hits = {}
    for v in violations:
        f = _known_c11(known, v)
        if f is None:
            new_viol.append(v)
        else:
            known_hits.setdefault(f["id"], []).append(v)
    reported = set()
    for v in new_viol:
        if v["case"] in reported or len(reported) >= 3:
            continue
        reported.add(v["case"])
        v = _minimise_k(cases[v["case_index"]], v)
        path = _write_replay(seed, cases[v["case_index"]], v)
        code, _o = M.replay_in_fresh_process(path)
        lines.append(f"  {v['case']} fault {v['exc']}@{v['k']} ({v['mode']}) at {v['site']}: {v['details'][:240]}")
        lines.append(f"  replay in a fresh process: {'reproduced' if code == 1 else 'NOT reproduced (exit %d)' % code}")
        lines.append(f"VIOLATION property=C11 replay={path}")
    for bv in bad["violations"][:3]:
        path = _write_badarg_replay(seed, bv)
        lines.append(f"  badarg: {bv['target']}: {bv['details']}")
        lines.append(f"VIOLATION property=C11 replay={path}")
    for fid, hits in known_hits.items():
        f = next(x for x in known["findings"] if x["id"] == fid)
        lines.append(f"KNOWN-FINDING: property=C11 {fid}: {f['title']} ({len(hits)} crash points)")
    lines.extend(hlines)
    for fid, hits in hknown.items():
        f = next(x for x in known["findings"] if x["id"] == fid)
        lines.append(f"KNOWN-FINDING: property=C11 {fid}: {f['title']} (re-found in {len(hits)} histories)")
    wall = time.time() - t0
    evidence = {
        "property_id": "C11", "tier": tier, "seed": seed, "level": "fault_enumeration",
        "coverage": {
            "evaluations": totals["fired"] + bad["tried"] + hist_fired,
            "distinct_nontrivial": len(sites) + bad["rejected"],
            "rule": "one evaluation = one injected fault (exception raised at the k-th monitored interpreter event "
                    "inside a non-mutating call, operands rebuilt each time) or one invalid-argument call; distinct "
                    "non-trivial = distinct crash sites (file, function, line/offset, event kind) at which an "
                    "injected fault actually fired, plus invalid-argument calls that were rejected",
            "samples": [{"case": cases[i]["name"], **plan[i]} for i in sorted(plan)[:60]],
            "catalogue_cases": len(cat), "generated_cases": len(gens),
            "faults_fired": totals["fired"], "faults_not_fired": totals["not_fired"],
            "faults_swallowed_by_library": totals["swallowed"],
            "fault_sequences_of_two": totals.get("sequences", 0),
            "fired_by_exception_kind": totals["by_exc"], "fired_by_mode": totals["by_mode"],
            "distinct_crash_sites": len(sites),
            "cases_fully_enumerated": sum(1 for i in plan if plan[i]["exhaustive"]),
            "structural_events_total": sum(plan[i]["structural_events"] for i in plan),
            "all_events_total": sum(plan[i]["all_events"] for i in plan),
            "dirty_window_events_seen": sum(plan[i]["dirty_events"] for i in plan),
            "badarg": {k: bad[k] for k in ("tried", "rejected", "accepted")},
            "histories_with_interrupts": {"runs": len(hres), "steps": sum(len(r["steps"]) for r in hres),
                                          "faults": hstats, "violating_runs": len(hviol)},
            "phase_wall_s": {"cases_and_count_passes": round(t_counts, 1), "injections": round(t_inject, 1),
                             "badarg_and_histories": round(t_hist, 1)},
            "injections_per_hour": round(totals["fired"] * 3600 / wall) if wall > 0 else 0,
            "violating_injections": len(violations), "unlisted": len(new_viol) + len(bad["violations"]) + len(hnew),
            "harness_errors": len(harness),
            "exhaustive": tier == "thorough" and all(plan[i]["exhaustive"] for i in plan if i < len(cat)),
            "real_vs_stub": "real: shapepy, numpy, pynurbs, matplotlib(Agg); simulator-owned: the monitor callback that raises",
        },
        "assumptions": [
            "crash points are interpreter events at line granularity (PY_START, PY_RETURN, LINE, JUMP) in shapepy code; an asynchronous exception between two bytecodes of a line is not modelled",
            "the geometric kernel (sim/kernel.py) is the trusted base for 'still denotes the region'",
        ],
        "wall_s": round(wall, 2),
        "violations": len(new_viol) + len(bad["violations"]) + len(hnew),
    }
    M.write_evidence("C11", evidence)
    for line in lines:
        print(line)
    print(f"C11: {len(cases)} cases ({len(cat)} catalogue), {totals['fired']} faults fired "
          f"({totals['swallowed']} swallowed, {totals['not_fired']} not reached), {len(sites)} distinct crash sites, "
          f"badarg {bad['tried']} tried / {bad['rejected']} rejected, {len(violations)} violating injections "
          f"({len(new_viol)} unlisted); {len(hres)} histories with {hist_fired} interrupted calls, "
          f"{len(hviol)} violating ({len(hnew)} unlisted); {len(harness)} harness errors, {wall:.1f}s")
    if harness:
        for h in harness[:5]:
            print("HARNESS-ERROR", h)
        return 2
    if new_viol or bad["violations"] or hnew:
        return 1
    return 0


def _known_c11(known, v):
    for f in known.get("findings", []):
        if f.get("property") != "C11":
            continue
        m = f.get("match", {})
        if m.get("case") and m["case"] != v["case"]:
            continue
        if m.get("site_function") and (not v["site"] or v["site"][2] != m["site_function"]):
            continue
        if m.get("details_contains") and m["details_contains"] not in v["details"]:
            continue
        if m:
            return f
    return None


def _minimise_k(case, v):
    """Lower k while the same kind of violation persists (binary descent over a few probes)."""
    try:
        ref = count_pass(case, v["mode"], cold=v["mode"] in ("tables", "structural-cold"))
        best = v
        for k in sorted(set([1, 2, 3, 5, 8, 13, 21, 34, 55, 89, 144, 233, 377, 610, 987])):
            if k >= best["k"]:
                break
            status, detail, site = inject(case, k, v["mode"], v["exc"], ref, True, v.get("k2"),
                                          cold=v["mode"] in ("tables", "structural-cold"))
            if status == "VIOLATION":
                best = dict(v, k=k, details=detail, site=list(site) if site else None)
                break
        return best
    except Exception:  # noqa: BLE001
        return v


def _write_replay(seed, case, v):
    from . import main as M

    h = hashlib.sha256(json.dumps([case, v["k"], v["mode"], v["exc"]], sort_keys=True).encode()).hexdigest()[:10]
    path = os.path.join(M.replay_dir(), f"C11-{seed}-{h}.json")
    doc = {"property": "C11", "kind": "c11", "seed": seed, "python": sys.version.split()[0],
           "case": case, "fault": {"k": v["k"], "k2": v.get("k2"), "mode": v["mode"], "exc": v["exc"], "site": v["site"]},
           "violation": {"invariant": "operands-after-fault", "details": v["details"]}}
    with open(path, "w") as f:
        json.dump(doc, f, indent=1)
    return path


def _write_badarg_replay(seed, bv):
    from . import main as M

    h = hashlib.sha256(json.dumps(bv, sort_keys=True).encode()).hexdigest()[:10]
    path = os.path.join(M.replay_dir(), f"C11-{seed}-badarg-{h}.json")
    doc = {"property": "C11", "kind": "c11", "badarg": bv, "seed": seed,
           "violation": {"invariant": "badarg-changed-shape", "details": bv["details"]}}
    with open(path, "w") as f:
        json.dump(doc, f, indent=1)
    return path


def replay(doc):
    if "badarg" in doc:
        res = badarg_check()
        hit = [b for b in res["violations"] if b["target"] == doc["badarg"]["target"]
               and b["method"] == doc["badarg"]["method"] and b["args"] == doc["badarg"]["args"]]
        if hit:
            print(f"replay: {hit[0]['details']}")
            print("REPRODUCED")
            print("VIOLATION property=C11 replay=<badarg>")
            return 1
        print("replay: the invalid-argument call no longer changes the shape")
        return 0
    case, fl = doc["case"], doc["fault"]
    ref = count_pass(case, fl["mode"], cold=fl["mode"] in ("tables", "structural-cold"))
    status, detail, site = inject(case, fl["k"], fl["mode"], fl["exc"], ref, True, fl.get("k2"),
                                  cold=fl["mode"] in ("tables", "structural-cold"))
    print(f"replay: case {case['name']!r} fault {fl['exc']}@{fl['k']} ({fl['mode']}) site {site}: {status} {detail}")
    if status == "VIOLATION":
        print("REPRODUCED" if list(site or []) == list(fl.get("site") or []) else "reproduced at a different site")
        print("VIOLATION property=C11 replay=<file>")
        return 1
    return 0
