"""The public-API calls the simulator can issue, as data: `perform(step, objs)` executes
one recorded step on the given operand objects (live objects, T1 twins or T2 twins alike),
`normalise` turns an outcome into a comparable, JSON-able answer."""
from __future__ import annotations

import copy as _copy
from fractions import Fraction

import numpy as np

from shapepy import (
    ConnectedShape,
    DisjointShape,
    EmptyShape,
    IntegrateShape,
    JordanCurve,
    SimpleShape,
    WholeShape,
)
from shapepy.polygon import Box, Point2D
from shapepy.shape import BaseShape

from . import model

BINARY_OPERATORS = ("or", "and", "sub", "xor", "add", "mul", "ior", "iand", "isub", "ixor")
UNARY_OPERATORS = ("inv", "neg")
COPIES = ("copy", "deepcopy", "simple_from_jordan", "jcopy", "jinv", "jabs")
UNARY_QUERIES = (
    "area", "moment", "jlen", "box", "in_point", "contains_point", "points", "str",
    "repr", "plot", "bool", "jarea", "seg_derivate", "seg_eval",
)
BINARY_QUERIES = ("in_shape", "contains_jordan", "eq", "ne", "jinter", "jand")
TRANSFORMS = ("move", "scale", "rotate", "invert")
REREPS = ("split", "clean")

NON_MUTATING = BINARY_OPERATORS + UNARY_OPERATORS + COPIES + UNARY_QUERIES + BINARY_QUERIES


class ArgumentMutated(Exception):
    """A query changed the Point2D object it was given."""


def _ask_point(step, fn):
    """Call fn(point) with the query point as a tuple or, when the step says so, as a
    caller-owned Point2D object that must come back unchanged."""
    p = pt(step["p"])
    if step.get("pform") != "point2d":
        return fn(p)
    obj = Point2D(p[0], p[1])
    before = (model._bit(obj[0]), model._bit(obj[1]))
    res = fn(obj)
    after = (model._bit(obj[0]), model._bit(obj[1]))
    if after != before:
        raise ArgumentMutated(f"the query moved the caller's point {before} -> {after}")
    return res


def num(x):
    return model.num_from_json(x)


def pt(p):
    return (num(p[0]), num(p[1]))


def _chain_key(jordan):
    """(bbox centre x, y, signed shoelace area of the control polygon): invariant under
    splitting, enough to tell the boundary curves of one shape apart."""
    xs, ys, pts = [], [], []
    for seg in jordan.segments:
        for p in seg.ctrlpoints:
            xs.append(float(p[0]))
            ys.append(float(p[1]))
        for p in seg.ctrlpoints[:-1]:
            pts.append((float(p[0]), float(p[1])))
    area = 0.0
    for i in range(len(pts)):
        x0, y0 = pts[i]
        x1, y1 = pts[(i + 1) % len(pts)]
        area += x0 * y1 - x1 * y0
    return ((min(xs) + max(xs)) / 2, (min(ys) + max(ys)) / 2, area / 2)


def jordan_of(obj, k, key=None):
    """The k-th boundary curve of a shape.  The order of the curves of a composite shape is
    decided by comparing float areas and is not preserved by copies when areas tie up to
    rounding, so twins select the curve by its geometric key when one is recorded."""
    if isinstance(obj, JordanCurve):
        return obj
    jordans = obj.jordans
    if key is None or len(jordans) <= 1:
        return jordans[k]
    best, bestd = None, None
    for j in jordans:
        cx, cy, ar = _chain_key(j)
        d = abs(cx - key[0]) + abs(cy - key[1]) + abs(ar - key[2])
        if bestd is None or d < bestd:
            best, bestd = j, d
    return best


_PLOTTER = None


def _plot(shape):
    import matplotlib

    matplotlib.use("Agg")
    from matplotlib import pyplot

    from shapepy.plot import ShapePloter

    plotter = ShapePloter()
    try:
        plotter.plot(shape)
        fig = plotter.gcf()
        ax = plotter.gca()
        npatches = len(ax.patches)
    finally:
        pyplot.close("all")
    return ("plotted", npatches)


def perform(step, objs):
    """Execute the library call of `step` on operand objects `objs`."""
    op = step["op"]
    a = objs[0] if objs else None
    b = objs[1] if len(objs) > 1 else None
    if op == "or":
        return a | b
    if op == "and":
        return a & b
    if op == "sub":
        return a - b
    if op == "xor":
        return a ^ b
    if op == "add":
        return a + b
    if op == "mul":
        return a * b
    if op in ("ior", "iand", "isub", "ixor"):
        # augmented assignment on a second reference: shapes define no in-place operators, so
        # the name is rebound to a new object and the operand itself must stay as it was
        tmp = a
        if op == "ior":
            tmp |= b
        elif op == "iand":
            tmp &= b
        elif op == "isub":
            tmp -= b
        else:
            tmp ^= b
        return tmp
    if op == "inv":
        return ~a
    if op == "neg":
        return -a
    if op == "copy":
        return _copy.copy(a)
    if op == "deepcopy":
        return _copy.deepcopy(a)
    if op == "simple_from_jordan":
        return SimpleShape(jordan_of(a, step["k"], step.get("kkey")))
    if op == "jcopy":
        return _copy.copy(jordan_of(a, step["k"], step.get("kkey")))
    if op == "jinv":
        return ~jordan_of(a, step["k"], step.get("kkey"))
    if op == "jabs":
        return abs(jordan_of(a, step["k"], step.get("kkey")))
    if op == "area":
        return float(a)
    if op == "bool":
        return bool(a)
    if op == "moment":
        if step.get("nnodes") is not None:
            return IntegrateShape.polynomial(a, step["ea"], step["eb"], step["nnodes"])
        return IntegrateShape.polynomial(a, step["ea"], step["eb"])
    if op == "jlen":
        return float(jordan_of(a, step["k"], step.get("kkey")))
    if op == "jarea":
        from shapepy.jordancurve import IntegrateJordan

        return IntegrateJordan.area(jordan_of(a, step["k"], step.get("kkey")))
    if op == "box":
        return a.box()
    if op == "in_point":
        return _ask_point(step, lambda q: q in a)
    if op == "contains_point":
        return _ask_point(step, lambda q: a.contains_point(q, step["boundary"]))
    if op == "points":
        return jordan_of(a, step["k"], step.get("kkey")).points(step["n"])
    if op == "seg_derivate":
        segs = jordan_of(a, step["k"], step.get("kkey")).segments
        return segs[step["i"] % len(segs)].derivate(step["times"]).ctrlpoints
    if op == "seg_eval":
        segs = jordan_of(a, step["k"], step.get("kkey")).segments
        return [segs[step["i"] % len(segs)](num(step["t"]))]
    if op == "str":
        return str(a)
    if op == "repr":
        return repr(a)
    if op == "plot":
        return _plot(a)
    if op == "in_shape":
        return b in a
    if op == "contains_jordan":
        return a.contains_jordan(jordan_of(b, step["k"], step.get("kkey")), step["boundary"])
    if op == "eq":
        return a == b
    if op == "ne":
        return a != b
    if op == "jinter":
        return jordan_of(a, step["ka"], step.get("kakey")).intersection(
            jordan_of(b, step["kb"], step.get("kbkey")), step["equal_beziers"], step["end_points"]
        )
    if op == "jand":
        return jordan_of(a, step["ka"], step.get("kakey")) & jordan_of(b, step["kb"], step.get("kbkey"))
    # ---- in place
    if op == "move":
        v = pt(step["v"])
        form = step.get("form")
        if form == "tuple":
            return a.move(v)
        if form == "list":
            return a.move(list(v))
        if form == "iter":
            return a.move(iter(v))
        if form == "gen":
            return a.move(c for c in v)
        if form == "point2d":
            return a.move(Point2D(v[0], v[1]))
        if form == "nparray":
            if all(isinstance(c, float) for c in v):
                return a.move(np.array(v))
            return a.move(np.array(v, dtype="object"))
        return a.move(v[0], v[1])
    if op == "scale":
        return a.scale(num(step["sx"]), num(step["sy"]))
    if op == "rotate" and step.get("aform") in ("ndarray", "npfloat"):
        # the angle as a numpy scalar or 0-d array (what a numpy user passes)
        ang = np.array(float(num(step["angle"]))) if step["aform"] == "ndarray" else np.float64(float(num(step["angle"])))
        if "degrees" in step and step["degrees"] is not None:
            return a.rotate(ang, step["degrees"])
        return a.rotate(ang)
    if op == "rotate":
        if "degrees" in step and step["degrees"] is not None:
            if step.get("dkw"):
                return a.rotate(num(step["angle"]), degrees=step["degrees"])
            return a.rotate(num(step["angle"]), step["degrees"])
        return a.rotate(num(step["angle"]))
    if op == "invert":
        if step.get("via") == "jordan":
            return a.jordans[0].invert()  # the shape's own curve, inverted in place
        return a.invert()
    if op == "split":
        return jordan_of(a, step["k"], step.get("kkey")).split(
            list(step["idx"]), [num(n) for n in step["nodes"]]
        )
    if op == "clean":
        return jordan_of(a, step["k"], step.get("kkey")).clean()
    raise ValueError(f"unknown op {op!r}")


def _numrepr(x):
    if isinstance(x, Fraction):
        return ["q", str(x.numerator), str(x.denominator),
                type(x.numerator).__name__ + type(x.denominator).__name__]
    if isinstance(x, (bool, np.bool_)):
        return ["b", bool(x)]
    if isinstance(x, (int, np.integer)):
        return ["i", str(int(x))]
    if isinstance(x, (float, np.floating)):
        return ["f", float(x).hex()]
    return ["?", type(x).__name__, repr(x)]


def normalise(outcome, payload):
    """-> (kind, bitwise, plain) : kind is the comparison class, bitwise a JSON-able
    bit-exact rendering, plain the python value used for tolerant comparison."""
    if outcome == "raise":
        return ("raise", ["raise", type(payload).__name__], type(payload).__name__)
    x = payload
    if x is None:
        return ("none", ["none"], None)
    if isinstance(x, (BaseShape, JordanCurve)):
        b = model.bits(x)
        return ("shape", _jsonify(b), model.value(x))
    if isinstance(x, (bool, np.bool_)):
        return ("bool", ["b", bool(x), type(x).__name__], bool(x))
    if isinstance(x, (int, float, Fraction, np.integer, np.floating)):
        return ("num", _numrepr(x) + [type(x).__name__], model._num(x))
    if isinstance(x, Box):
        lo, hi = x.lowpt, x.toppt
        vals = (model._num(lo[0]), model._num(lo[1]), model._num(hi[0]), model._num(hi[1]))
        return ("box", ["box"] + [_numrepr(v) for v in vals], vals)
    if isinstance(x, str):
        return ("str", ["s", x], x)
    if isinstance(x, tuple) and len(x) == 2 and isinstance(x[0], str) and x[0] == "plotted":
        return ("plot", ["plot", x[1]], x[1])
    if isinstance(x, (tuple, list)):
        rows = []
        plain = []
        for row in x:
            if isinstance(row, (tuple, list, Point2D)):
                vals = [None if v is None else model._num(v) for v in row]
                rows.append([None if v is None else _numrepr(v) for v in vals])
                plain.append(tuple(vals))
            else:
                rows.append(_numrepr(model._num(row)))
                plain.append(model._num(row))
        return ("rows", ["rows", rows], tuple(plain))
    return ("other", ["other", type(x).__name__, repr(x)], repr(x))


def _jsonify(b):
    if isinstance(b, tuple):
        return [_jsonify(x) for x in b]
    return b
