"""Library-independent geometry kernel over *model values* (DESIGN 3.1).

Nothing in this file imports shapepy.  A value is

    "E" | "W" | ("J", chain) | ("S", chain) | ("C", (sub, ...)) | ("D", (sub, ...))

where a chain is a tuple of segments, a segment a tuple of (x, y) control points
(Bezier, degree = len-1) and x, y are int / Fraction / float.  The kernel is exact
(Fractions) when every coordinate is rational and every segment straight, and
metric (floats + stated tolerances) otherwise.
"""
from __future__ import annotations

import math
from fractions import Fraction

RAT = (int, Fraction)


# ---------------------------------------------------------------- structure
def kind(value):
    return value if isinstance(value, str) else value[0]


def chains_of(value):
    """All boundary chains of a value, in structural order."""
    if isinstance(value, str):
        return []
    tag, body = value
    if tag in ("S", "J"):
        return [body]
    out = []
    for sub in body:
        out.extend(chains_of(sub))
    return out


def coords_of(value):
    for chain in chains_of(value):
        for seg in chain:
            for x, y in seg:
                yield x
                yield y


def is_rational(value):
    return all(isinstance(c, RAT) and not isinstance(c, bool) for c in coords_of(value))


def is_polygonal(value):
    return all(len(seg) == 2 for chain in chains_of(value) for seg in chain)


def max_denominator(value):
    m = 1
    for c in coords_of(value):
        if isinstance(c, Fraction):
            m = max(m, c.denominator)
    return m


def fl(value_or_num):
    return float(value_or_num)


def fchain(chain):
    return tuple(tuple((float(x), float(y)) for x, y in seg) for seg in chain)


def bbox(chains):
    xs = [float(x) for ch in chains for seg in ch for x, _ in seg]
    ys = [float(y) for ch in chains for seg in ch for _, y in seg]
    if not xs:
        return (0.0, 0.0, 1.0, 1.0)
    return (min(xs), min(ys), max(xs), max(ys))


def diam(chains):
    x0, y0, x1, y1 = bbox(chains)
    d = math.hypot(x1 - x0, y1 - y0)
    return d if d > 0 else 1.0


def closed_by_value(chain, tol=None):
    """End of every segment equals the start of the next (bitwise, or within `tol`; default:
    the library's own point equality 1e-9 for polygons, 2e-4 for chains with curved segments,
    whose pieces the library degree-reduces with re-fitted end points)."""
    if tol is None:
        tol = 1e-9 if all(len(s) == 2 for s in chain) else 2e-4
    n = len(chain)
    if n == 0:
        return False
    for i, seg in enumerate(chain):
        a = seg[-1]
        b = chain[(i + 1) % n][0]
        if a[0] == b[0] and a[1] == b[1]:
            continue
        # two distinct point objects at a junction (a degree-reduced segment gets re-fitted end
        # points): closed within the library's own point equality (1e-9)
        if abs(float(a[0]) - float(b[0])) > tol or abs(float(a[1]) - float(b[1])) > tol:
            return False
    return True


# ---------------------------------------------------------------- Bezier
def seg_eval(seg, t):
    pts = list(seg)
    while len(pts) > 1:
        pts = [
            (a[0] + (b[0] - a[0]) * t, a[1] + (b[1] - a[1]) * t)
            for a, b in zip(pts[:-1], pts[1:])
        ]
    return pts[0]


def seg_split(seg, t):
    pts = list(seg)
    left = [pts[0]]
    right = [pts[-1]]
    while len(pts) > 1:
        pts = [
            (a[0] + (b[0] - a[0]) * t, a[1] + (b[1] - a[1]) * t)
            for a, b in zip(pts[:-1], pts[1:])
        ]
        left.append(pts[0])
        right.append(pts[-1])
    return tuple(left), tuple(reversed(right))


def _comb(n, k):
    return math.comb(n, k)


def _power(coefs_bezier):
    """Bezier coefficients -> power basis (ascending)."""
    n = len(coefs_bezier) - 1
    out = []
    for j in range(n + 1):
        s = 0
        for i in range(j + 1):
            term = _comb(n, j) * _comb(j, i) * coefs_bezier[i]
            s = s + (term if (j - i) % 2 == 0 else -term)
        out.append(s)
    return out


def _pmul(p, q):
    out = [0] * (len(p) + len(q) - 1)
    for i, a in enumerate(p):
        if a == 0:
            continue
        for j, b in enumerate(q):
            out[i + j] = out[i + j] + a * b
    return out


def _pder(p):
    return [i * a for i, a in enumerate(p)][1:] or [0]


def _pint01(p):
    s = 0
    for i, a in enumerate(p):
        if isinstance(a, RAT):
            s = s + Fraction(a) / (i + 1)
        else:
            s = s + a / (i + 1)
    return s


def _ppow(p, k):
    out = [1]
    for _ in range(k):
        out = _pmul(out, p)
    return out


MOMENT_KEYS = ((0, 0), (1, 0), (0, 1), (2, 0), (1, 1), (0, 2))


def chain_moments(chain, keys=MOMENT_KEYS):
    """int int x^a y^b dA enclosed by the chain (signed by orientation), closed form."""
    res = {k: 0 for k in keys}
    for seg in chain:
        if all(isinstance(c, RAT) for pt in seg for c in pt):
            xs = [Fraction(p[0]) for p in seg]
            ys = [Fraction(p[1]) for p in seg]
        else:
            xs = [float(p[0]) for p in seg]
            ys = [float(p[1]) for p in seg]
        px, py = _power(xs), _power(ys)
        dy = _pder(py)
        for a, b in keys:
            integrand = _pmul(_pmul(_ppow(px, a + 1), _ppow(py, b)), dy)
            val = _pint01(integrand)
            if isinstance(val, RAT):
                res[(a, b)] = res[(a, b)] + Fraction(val) / (a + 1)
            else:
                res[(a, b)] = float(res[(a, b)]) + val / (a + 1)
    return res


def moments(value, keys=MOMENT_KEYS):
    tot = {k: 0 for k in keys}
    for chain in chains_of(value):
        m = chain_moments(chain, keys)
        for k in keys:
            if isinstance(tot[k], RAT) and isinstance(m[k], RAT):
                tot[k] = tot[k] + m[k]
            else:
                tot[k] = float(tot[k]) + float(m[k])
    return tot


def chain_area(chain):
    return chain_moments(chain, ((0, 0),))[(0, 0)]


def orientation_signs(value):
    out = []
    for chain in chains_of(value):
        a = chain_area(chain)
        out.append(1 if a > 0 else (-1 if a < 0 else 0))
    return tuple(out)


def chain_length(chain, n=64):
    """Metric length of a chain (exact-ish for polygons, polyline for curves)."""
    total = 0.0
    for seg in chain:
        if len(seg) == 2:
            total += math.hypot(float(seg[1][0] - seg[0][0]), float(seg[1][1] - seg[0][1]))
        else:
            fs = tuple((float(x), float(y)) for x, y in seg)
            prev = fs[0]
            for i in range(1, n + 1):
                cur = seg_eval(fs, i / n)
                total += math.hypot(cur[0] - prev[0], cur[1] - prev[1])
                prev = cur
    return total


# ---------------------------------------------------------------- polylines
def _flat_enough(seg, tol):
    (x0, y0), (x1, y1) = seg[0], seg[-1]
    dx, dy = x1 - x0, y1 - y0
    L = math.hypot(dx, dy)
    for x, y in seg[1:-1]:
        if L == 0:
            d = math.hypot(x - x0, y - y0)
        else:
            d = abs((x - x0) * dy - (y - y0) * dx) / L
            # also guard control points beyond the chord ends
            tpar = ((x - x0) * dx + (y - y0) * dy) / (L * L)
            if tpar < 0 or tpar > 1:
                d = max(d, min(math.hypot(x - x0, y - y0), math.hypot(x - x1, y - y1)))
        if d > tol:
            return False
    return True


def flatten_seg(seg, tol, depth=0):
    """Float polyline (list of points, start included, end excluded)."""
    seg = tuple((float(x), float(y)) for x, y in seg)
    if len(seg) == 2 or depth >= 12 or _flat_enough(seg, tol):
        return [seg[0]]
    a, b = seg_split(seg, 0.5)
    return flatten_seg(a, tol, depth + 1) + flatten_seg(b, tol, depth + 1)


def flatten_chain(chain, tol):
    pts = []
    for seg in chain:
        pts.extend(flatten_seg(seg, tol))
    return pts


def _dist_point_segment(p, a, b):
    dx, dy = b[0] - a[0], b[1] - a[1]
    L2 = dx * dx + dy * dy
    if L2 == 0:
        return math.hypot(p[0] - a[0], p[1] - a[1])
    t = ((p[0] - a[0]) * dx + (p[1] - a[1]) * dy) / L2
    t = 0.0 if t < 0 else (1.0 if t > 1 else t)
    return math.hypot(p[0] - (a[0] + t * dx), p[1] - (a[1] + t * dy))


def dist_to_polys(p, polys):
    p = (float(p[0]), float(p[1]))
    best = math.inf
    for poly in polys:
        n = len(poly)
        for i in range(n):
            d = _dist_point_segment(p, poly[i], poly[(i + 1) % n])
            if d < best:
                best = d
    return best


def flat_polys(value, rel_tol=1e-6):
    chains = chains_of(value)
    tol = rel_tol * diam(chains)
    return [flatten_chain(ch, tol) for ch in chains]


def dist_to_boundary(value, p, polys=None):
    if polys is None:
        polys = flat_polys(value)
    return dist_to_polys(p, polys)


# ---------------------------------------------------------------- winding
def winding_polygon(poly, p):
    """Winding number of closed polygon `poly` about p; None if p is on it.

    Exact when poly and p are rational (no division)."""
    px, py = p
    wn = 0
    n = len(poly)
    for i in range(n):
        ax, ay = poly[i]
        bx, by = poly[(i + 1) % n]
        cross = (bx - ax) * (py - ay) - (by - ay) * (px - ax)
        if cross == 0:
            if min(ax, bx) <= px <= max(ax, bx) and min(ay, by) <= py <= max(ay, by):
                return None
        if ay <= py:
            if by > py and cross > 0:
                wn += 1
        else:
            if by <= py and cross < 0:
                wn -= 1
    return wn


def chain_polygon(chain, exact):
    """Polygon used for winding: exact vertex list for polygonal rational chains,
    fine float polyline otherwise."""
    if exact and all(len(s) == 2 for s in chain):
        return [s[0] for s in chain]
    d = diam([chain])
    return flatten_chain(chain, 1e-7 * d)


class Region:
    """Membership by the structure of the value (S: side of one curve, C: all, D: any)."""

    def __init__(self, value):
        self.value = value
        self.exact = is_rational(value) and is_polygonal(value)
        self._cache = {}

    def _poly(self, chain):
        key = id(chain)
        got = self._cache.get(key)
        if got is None:
            poly = chain_polygon(chain, self.exact)
            sign = 1 if chain_area(chain) > 0 else -1
            got = (chain, poly, sign)  # keep chain alive (id key)
            self._cache[key] = got
        return got[1], got[2]

    def _member(self, value, p):
        if value == "E":
            return False
        if value == "W":
            return True
        tag, body = value
        if tag in ("S", "J"):
            poly, sign = self._poly(body)
            w = winding_polygon(poly, p)
            if w is None:
                return None
            return (w > 0) if sign > 0 else (w > -1)
        res = [self._member(sub, p) for sub in body]
        if tag == "C":
            if any(r is False for r in res):
                return False
            return None if any(r is None for r in res) else True
        if any(r is True for r in res):
            return True
        return None if any(r is None for r in res) else False

    def member(self, p):
        """True / False / None (on the boundary)."""
        if self.exact:
            p = (_rat(p[0]), _rat(p[1]))
        else:
            p = (float(p[0]), float(p[1]))
        return self._member(self.value, p)


def _rat(x):
    if isinstance(x, RAT):
        return Fraction(x)
    return Fraction(float(x))


# ---------------------------------------------------------------- exact cycles
def _line_key(p, q):
    """Canonical key of the supporting line of edge p->q (rational), the sign of the
    edge direction w.r.t. the canonical direction and the scalar positions of p, q."""
    a = q[1] - p[1]
    b = p[0] - q[0]
    c = -(a * p[0] + b * p[1])
    lead = a if a != 0 else b
    a, b, c = Fraction(a) / lead, Fraction(b) / lead, Fraction(c) / lead
    # position along the line: x unless the line is vertical (b == 0)
    if b != 0:
        tp, tq = Fraction(p[0]), Fraction(q[0])
    else:
        tp, tq = Fraction(p[1]), Fraction(q[1])
    return (a, b, c), tp, tq


def cycle_signature(chains):
    """Exact canonical form of the oriented boundary 1-cycle of rational polygons:
    {line: ((t, multiplicity_after_t), ...)} with cancellations applied.  Two sets of
    chains have the same signature iff they are equal as oriented cycles, whatever the
    start vertices, redundant vertices, order of curves, or pinch decomposition."""
    lines = {}
    for chain in chains:
        for seg in chain:
            p, q = seg[0], seg[-1]
            if p[0] == q[0] and p[1] == q[1]:
                continue
            key, tp, tq = _line_key(p, q)
            ev = lines.setdefault(key, {})
            if tp < tq:
                ev[tp] = ev.get(tp, 0) + 1
                ev[tq] = ev.get(tq, 0) - 1
            else:
                ev[tq] = ev.get(tq, 0) - 1
                ev[tp] = ev.get(tp, 0) + 1
    sig = {}
    for key, ev in lines.items():
        steps = []
        mult = 0
        for t in sorted(ev):
            if ev[t] == 0:
                continue
            mult += ev[t]
            if steps and steps[-1][1] == mult:
                continue
            steps.append((t, mult))
        # drop leading zero-multiplicity entries (cannot occur) and merge
        steps = tuple(steps)
        if any(m != 0 for _, m in steps):
            sig[key] = steps
    return sig


# ---------------------------------------------------------------- comparison
class Tol:
    """Tolerances of DESIGN 3.1, chosen from the data."""

    def __init__(self, *values):
        chains = [c for v in values for c in chains_of(v)]
        self.d = diam(chains) if chains else 1.0
        self.curved = not all(is_polygonal(v) for v in values)
        self.rational = all(is_rational(v) for v in values) and all(
            max_denominator(v) <= 10**9 for v in values
        )
        self.exact = self.rational and not self.curved
        # the library stores rational coordinates with limit_denominator(10**9): once
        # denominators come near that limit a stored crossing point may be rounded
        self.rounding_possible = self.exact and any(max_denominator(v) > 10**7 for v in values)
        if self.exact:
            self.num_rel = 0.0
            self.pts = 0.0
            self.area = 0.0
        elif self.curved:
            # the library's own clean() replaces a short curved piece by a lower-degree one when
            # the squared L2 error is below 1e-9: an absolute deviation of up to ~1e-4 whatever
            # the size of the shape
            self.num_rel = 1e-5
            self.pts = max(1e-4 * self.d, 1.5e-4)
            self.area = max(1e-5 * self.d * self.d, 2e-4 * self.d)
        else:
            self.num_rel = 1e-7
            self.pts = 1e-6 * self.d
            self.area = 1e-7 * self.d * self.d

    def num_close(self, a, b, scale=None):
        if self.exact and isinstance(a, RAT) and isinstance(b, RAT):
            return a == b
        a, b = float(a), float(b)
        if math.isinf(a) or math.isinf(b) or math.isnan(a) or math.isnan(b):
            return a == b or (math.isnan(a) and math.isnan(b))
        rel = self.num_rel if self.num_rel else 1e-9
        s = max(abs(a), abs(b), scale or 0.0)
        return abs(a - b) <= rel * max(s, 1e-300) + 1e-300


class _RoundedTol:
    exact = False
    curved = False

    def __init__(self, d):
        self.d = d
        self.num_rel = 1e-9
        self.pts = 1e-9 * max(d, 1.0)
        self.area = 1e-9 * d * d


def _cover_metric(X, Y, tol, nsample=8):
    polysY = [flatten_chain(ch, tol / 4) for ch in chains_of(Y)]
    worst = 0.0
    for ch in chains_of(X):
        for seg in ch:
            fs = tuple((float(x), float(y)) for x, y in seg)
            for i in range(nsample + 1):
                p = seg_eval(fs, i / nsample)
                dmin = dist_to_polys(p, polysY) if polysY else math.inf
                if dmin > worst:
                    worst = dmin
                    if worst > tol:
                        return False, worst
    return True, worst


def panel_points(values, n=7, margin_rel=1e-3):
    """Deterministic panel of points of the joint bounding box (slightly enlarged)
    lying at least margin_rel*diam away from every boundary."""
    chains = [c for v in values for c in chains_of(v)]
    if not chains:
        return [(0.0, 0.0), (1.0, 2.0), (-3.0, 0.5)]
    x0, y0, x1, y1 = bbox(chains)
    d = diam(chains)
    ex = 0.13 * d
    x0, y0, x1, y1 = x0 - ex, y0 - ex, x1 + ex, y1 + ex
    polys = [flatten_chain(ch, 1e-6 * d) for ch in chains]
    pts = []
    for i in range(n):
        for j in range(n):
            # irrational-looking offsets avoid grid-aligned boundaries
            px = x0 + (x1 - x0) * (i + 0.37) / n
            py = y0 + (y1 - y0) * (j + 0.61) / n
            if dist_to_polys((px, py), polys) >= margin_rel * d:
                pts.append((px, py))
    return pts


def same_region(X, Y, tol=None):
    """Representation-independent region equality of two values -> (ok, reason)."""
    kx, ky = kind(X), kind(Y)
    if kx in ("E", "W") or ky in ("E", "W"):
        if kx == ky:
            return True, "singleton"
        return False, f"kind {kx} vs {ky}"
    if tol is None:
        tol = Tol(X, Y)
    cx, cy = chains_of(X), chains_of(Y)
    metric = not tol.exact
    if tol.exact:
        if cycle_signature(cx) != cycle_signature(cy):
            if not tol.rounding_possible:
                return False, "oriented boundary cycles differ (exact)"
            # rounded by limit_denominator(10**9): compare metrically, tightly
            metric = True
            tol = _RoundedTol(tol.d)
    if metric:
        mx, my = moments(X), moments(Y)
        for k in MOMENT_KEYS:
            scale = tol.area * (tol.d ** (k[0] + k[1]))
            if abs(float(mx[k]) - float(my[k])) > scale + tol.num_rel * abs(float(mx[k])):
                return False, f"moment {k}: {float(mx[k])!r} vs {float(my[k])!r}"
        ok, worst = _cover_metric(X, Y, tol.pts)
        if not ok:
            return False, f"boundary of first not on second (dist {worst:.3g} > {tol.pts:.3g})"
        ok, worst = _cover_metric(Y, X, tol.pts)
        if not ok:
            return False, f"boundary of second not on first (dist {worst:.3g} > {tol.pts:.3g})"
    rx, ry = Region(X), Region(Y)
    for p in panel_points([X, Y]):
        a, b = rx.member(p), ry.member(p)
        if a is None or b is None:
            continue
        if a != b:
            return False, f"membership differs at {p}: {a} vs {b}"
    return True, "ok"


def same_chain_set(X, Y):
    """same_region for plain curves ('J'): oriented cycle equality."""
    return same_region(X, Y)


# ---------------------------------------------------------------- position
def _edge_pairs_exact(cx, cy, delta):
    """Classify the mutual position of two sets of rational polygonal chains.
    Returns 'disjoint' | 'transversal' | 'contact'."""
    crossed = False
    for cha in cx:
        for sa in cha:
            p0, p1 = sa[0], sa[-1]
            r = (p1[0] - p0[0], p1[1] - p0[1])
            for chb in cy:
                for sb in chb:
                    q0, q1 = sb[0], sb[-1]
                    # quick bbox rejection
                    if max(p0[0], p1[0]) < min(q0[0], q1[0]) or max(q0[0], q1[0]) < min(p0[0], p1[0]):
                        continue
                    if max(p0[1], p1[1]) < min(q0[1], q1[1]) or max(q0[1], q1[1]) < min(p0[1], p1[1]):
                        continue
                    s = (q1[0] - q0[0], q1[1] - q0[1])
                    den = r[0] * s[1] - r[1] * s[0]
                    w = (q0[0] - p0[0], q0[1] - p0[1])
                    if den == 0:
                        if w[0] * r[1] - w[1] * r[0] == 0:
                            # collinear with overlapping boxes: touching or overlapping
                            return "contact"
                        continue
                    t = Fraction(w[0] * s[1] - w[1] * s[0]) / den
                    u = Fraction(w[0] * r[1] - w[1] * r[0]) / den
                    if t < 0 or t > 1 or u < 0 or u > 1:
                        continue
                    if delta <= t <= 1 - delta and delta <= u <= 1 - delta:
                        crossed = True
                        continue
                    return "contact"
    return "transversal" if crossed else "disjoint"


def _min_vertex_clearance(cx, cy):
    """min distance from any vertex of cx to the boundary cy (float)."""
    polys = [[(float(s[0][0]), float(s[0][1])) for s in ch] for ch in cy]
    best = math.inf
    for ch in cx:
        for s in ch:
            best = min(best, dist_to_polys(s[0], polys))
    return best


def _polyline_position(pa, pb, clearance):
    """Float classification of two closed polylines with a clearance requirement."""
    crossed = False
    na, nb = len(pa), len(pb)
    for i in range(na):
        p0, p1 = pa[i], pa[(i + 1) % na]
        r = (p1[0] - p0[0], p1[1] - p0[1])
        for j in range(nb):
            q0, q1 = pb[j], pb[(j + 1) % nb]
            if max(p0[0], p1[0]) < min(q0[0], q1[0]) - clearance:
                continue
            if max(q0[0], q1[0]) < min(p0[0], p1[0]) - clearance:
                continue
            if max(p0[1], p1[1]) < min(q0[1], q1[1]) - clearance:
                continue
            if max(q0[1], q1[1]) < min(p0[1], p1[1]) - clearance:
                continue
            s = (q1[0] - q0[0], q1[1] - q0[1])
            den = r[0] * s[1] - r[1] * s[0]
            w = (q0[0] - p0[0], q0[1] - p0[1])
            lr, ls = math.hypot(*r), math.hypot(*s)
            if lr == 0 or ls == 0:
                continue
            if abs(den) <= 0.05 * lr * ls:  # nearly parallel (angle < ~3 deg)
                dmin = min(
                    _dist_point_segment(p0, q0, q1),
                    _dist_point_segment(p1, q0, q1),
                    _dist_point_segment(q0, p0, p1),
                    _dist_point_segment(q1, p0, p1),
                )
                if dmin < clearance:
                    return "contact"
                continue
            t = (w[0] * s[1] - w[1] * s[0]) / den
            u = (w[0] * r[1] - w[1] * r[0]) / den
            if 0 <= t <= 1 and 0 <= u <= 1:
                crossed = True
    return "transversal" if crossed else "disjoint"


def position(X, Y, delta=Fraction(1, 50), clearance_rel=1e-2):
    """Mutual position of the boundaries of two model values (DESIGN 2.2):
    'disjoint' (with clearance), 'transversal' (finitely many crossings, interior to the
    canonical pieces, away from vertices), 'identical', or 'contact' (anything else)."""
    cx, cy = chains_of(X), chains_of(Y)
    if not cx or not cy:
        return "disjoint"
    d = diam(cx + cy)
    clearance = clearance_rel * min(diam(cx), diam(cy))
    exact = is_rational(X) and is_rational(Y) and is_polygonal(X) and is_polygonal(Y)
    if exact:
        if cycle_signature(cx) == cycle_signature(cy):
            return "identical"
        neg = [tuple(tuple(reversed(s)) for s in reversed(ch)) for ch in cy]
        if cycle_signature(cx) == cycle_signature(neg):
            return "contact"  # same curve, opposite orientation
        pos = _edge_pairs_exact(cx, cy, delta)
        if pos == "contact":
            return pos
        # vertices must keep clear of the other boundary (the library works with
        # absolute 1e-6 / 1e-9 tolerances; near misses are erratic on fresh data too)
        if min(_min_vertex_clearance(cx, cy), _min_vertex_clearance(cy, cx)) < clearance:
            return "contact"
        return pos
    # metric
    fx = [flatten_chain(ch, 1e-5 * d) for ch in cx]
    fy = [flatten_chain(ch, 1e-5 * d) for ch in cy]
    # identical?
    okxy, _ = _cover_metric(X, Y, 1e-7 * d)
    if okxy:
        okyx, _ = _cover_metric(Y, X, 1e-7 * d)
        if okyx:
            same_orient = orientation_signs(X) == orientation_signs(Y)
            return "identical" if same_orient and len(cx) == len(cy) else "contact"
    result = "disjoint"
    for pa in fx:
        for pb in fy:
            pos = _polyline_position(pa, pb, clearance)
            if pos == "contact":
                return pos
            if pos == "transversal":
                result = pos
    # joints of either curve must keep clear of the other boundary
    vx = [[(float(s[0][0]), float(s[0][1])) for s in ch] for ch in cx]
    vy = [[(float(s[0][0]), float(s[0][1])) for s in ch] for ch in cy]
    for ch in vx:
        for p in ch:
            if dist_to_polys(p, fy) < clearance:
                return "contact"
    for ch in vy:
        for p in ch:
            if dist_to_polys(p, fx) < clearance:
                return "contact"
    # crossings must be well conditioned: polylines' crossing angle checked above
    return result


def simple_polygon(verts):
    """True iff the rational polygon is simple, has no zero-length edge and no
    collinear consecutive vertices (general position for a *single* curve)."""
    n = len(verts)
    if n < 3:
        return False
    for i in range(n):
        a, b, c = verts[i], verts[(i + 1) % n], verts[(i + 2) % n]
        if a == b:
            return False
        if (b[0] - a[0]) * (c[1] - b[1]) - (b[1] - a[1]) * (c[0] - b[0]) == 0:
            return False
    for i in range(n):
        p0, p1 = verts[i], verts[(i + 1) % n]
        for j in range(i + 1, n):
            if j == i or (j + 1) % n == i or (i + 1) % n == j:
                continue
            q0, q1 = verts[j], verts[(j + 1) % n]
            if _segments_touch(p0, p1, q0, q1):
                return False
    return True


def _orient(a, b, c):
    v = (b[0] - a[0]) * (c[1] - a[1]) - (b[1] - a[1]) * (c[0] - a[0])
    return (v > 0) - (v < 0)


def _on(a, b, c):
    return min(a[0], b[0]) <= c[0] <= max(a[0], b[0]) and min(a[1], b[1]) <= c[1] <= max(a[1], b[1])


def _segments_touch(p0, p1, q0, q1):
    o1, o2 = _orient(p0, p1, q0), _orient(p0, p1, q1)
    o3, o4 = _orient(q0, q1, p0), _orient(q0, q1, p1)
    if o1 != o2 and o3 != o4:
        return True
    if o1 == 0 and _on(p0, p1, q0):
        return True
    if o2 == 0 and _on(p0, p1, q1):
        return True
    if o3 == 0 and _on(q0, q1, p0):
        return True
    if o4 == 0 and _on(q0, q1, p1):
        return True
    return False


def min_feature(verts):
    """Smallest distance between a vertex and a non-adjacent edge, and smallest edge."""
    n = len(verts)
    f = [(float(x), float(y)) for x, y in verts]
    best = math.inf
    for i in range(n):
        best = min(best, math.hypot(f[i][0] - f[(i + 1) % n][0], f[i][1] - f[(i + 1) % n][1]))
        for j in range(n):
            if j == i or (j + 1) % n == i:
                continue
            best = min(best, _dist_point_segment(f[i], f[j], f[(j + 1) % n]))
    return best


# ---------------------------------------------------------------- exactness / sanity
def crossings_max_denominator(X, Y):
    """Largest denominator among the exact crossing points of the edges of two rational
    polygonal values (1 when they do not cross).  The library stores coordinates with
    limit_denominator(10**9): a binary step is exact iff this stays <= 10**9."""
    worst = 1
    for cha in chains_of(X):
        for sa in cha:
            p0, p1 = sa[0], sa[-1]
            r = (p1[0] - p0[0], p1[1] - p0[1])
            for chb in chains_of(Y):
                for sb in chb:
                    q0, q1 = sb[0], sb[-1]
                    if max(p0[0], p1[0]) < min(q0[0], q1[0]) or max(q0[0], q1[0]) < min(p0[0], p1[0]):
                        continue
                    if max(p0[1], p1[1]) < min(q0[1], q1[1]) or max(q0[1], q1[1]) < min(p0[1], p1[1]):
                        continue
                    s = (q1[0] - q0[0], q1[1] - q0[1])
                    den = r[0] * s[1] - r[1] * s[0]
                    if den == 0:
                        continue
                    w = (q0[0] - p0[0], q0[1] - p0[1])
                    t = Fraction(w[0] * s[1] - w[1] * s[0]) / den
                    u = Fraction(w[0] * r[1] - w[1] * r[0]) / den
                    if t < 0 or t > 1 or u < 0 or u > 1:
                        continue
                    x = Fraction(p0[0]) + t * r[0]
                    y = Fraction(p0[1]) + t * r[1]
                    worst = max(worst, x.denominator, y.denominator, t.denominator, u.denominator)
    return worst


def sane(value):
    """A value that can serve as a reference: every chain closed by value, no tiny or
    zero-length segment, every chain simple (on a fine polyline), non-zero areas."""
    if isinstance(value, str):
        return True
    chains = chains_of(value)
    if not chains:
        return False
    d = diam(chains)
    for ch in chains:
        if len(ch) < 2 or not closed_by_value(ch):
            return False
        for seg in ch:
            fs = [(float(x), float(y)) for x, y in seg]
            if math.hypot(fs[-1][0] - fs[0][0], fs[-1][1] - fs[0][1]) < 1e-4 * d:
                return False
        a = float(chain_area(ch))
        if abs(a) < 1e-8 * d * d:
            return False
        flat = flatten_chain(ch, 1e-3 * d)
        n = len(flat)
        if n < 3:
            return False
        for i in range(n):
            p0, p1 = flat[i], flat[(i + 1) % n]
            for j in range(i + 2, n):
                if (j + 1) % n == i:
                    continue
                if _segments_touch(p0, p1, flat[j], flat[(j + 1) % n]):
                    return False
    return True


def live_near_degenerate(X, Y, lo=1e-9, hi=1e-4):
    """True when some crossing of the straight edges of two *live* values falls in the
    library's tolerance band next to a vertex: closer to an end of either edge than `hi`
    (in parameter) without coinciding with it (within `lo`).  A crossing that coincides with
    a vertex left by an earlier split is ordinary inherited state; one that misses it by
    1e-6 is the degenerate band of the absolute tolerances (split drops nodes within 1e-6 of
    an end, point-on-curve uses 1e-6)."""
    for cha in chains_of(X):
        for sa in cha:
            if len(sa) != 2:
                continue
            p0, p1 = (float(sa[0][0]), float(sa[0][1])), (float(sa[1][0]), float(sa[1][1]))
            r = (p1[0] - p0[0], p1[1] - p0[1])
            for chb in chains_of(Y):
                for sb in chb:
                    if len(sb) != 2:
                        continue
                    q0, q1 = (float(sb[0][0]), float(sb[0][1])), (float(sb[1][0]), float(sb[1][1]))
                    if max(p0[0], p1[0]) < min(q0[0], q1[0]) - 1e-3 or max(q0[0], q1[0]) < min(p0[0], p1[0]) - 1e-3:
                        continue
                    if max(p0[1], p1[1]) < min(q0[1], q1[1]) - 1e-3 or max(q0[1], q1[1]) < min(p0[1], p1[1]) - 1e-3:
                        continue
                    sv = (q1[0] - q0[0], q1[1] - q0[1])
                    den = r[0] * sv[1] - r[1] * sv[0]
                    if den == 0:
                        continue
                    w = (q0[0] - p0[0], q0[1] - p0[1])
                    t = (w[0] * sv[1] - w[1] * sv[0]) / den
                    u = (w[0] * r[1] - w[1] * r[0]) / den
                    if t < -hi or t > 1 + hi or u < -hi or u > 1 + hi:
                        continue
                    for par in (t, u):
                        d = min(abs(par), abs(par - 1))
                        if lo < d < hi:
                            return True
    return False
