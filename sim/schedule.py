"""The seeded 'scheduler' (DESIGN 2.2): one random.Random decides the swarm configuration
of a run and every step; steps are generated adaptively against the current heap and
recorded as plain data."""
from __future__ import annotations

import math
import random
from fractions import Fraction

from . import gen, kernel, model, ops
from .world import HEAP_MAX, J, mutable_ids

HEAD_ROOM = HEAP_MAX + 2  # slots a probe may add beyond the heap bound

FAULT_EXCS = ["interrupt", "interrupt", "interrupt", "memory", "assertion", "value", "type", "zerodiv"]

PROFILES = {
    # weights of step kinds
    "C08": dict(build=2, operator=7, bquery=3, uquery=3, copy=4, transform=5, rerep=1, fault=1,
                mutate_after=0.6, t1=0.15, t2=0.1, repeat=0.05),
    "C09": dict(build=2, operator=2, bquery=1, uquery=3, copy=1, transform=9, rerep=1, fault=2,
                mutate_after=0.3, t1=0.2, t2=0.8, repeat=0.05),
    "C11": dict(build=2, operator=7, bquery=5, uquery=3, copy=2, transform=2, rerep=2, fault=1,
                mutate_after=0.1, t1=0.6, t2=0.5, repeat=0.2, query_after=0.3, pair_again=0.5, inject=0.45),
    "C10": dict(build=2, operator=6, bquery=4, uquery=5, copy=1, transform=3, rerep=2, fault=2,
                mutate_after=0.15, t1=1.0, t2=0.7, repeat=0.35, query_after=0.6, pair_again=0.6, sandwich=0.45, scene=0.3),
}


def _center(val):
    """Centre of the bounding box of the control points (exact for rational data)."""
    xs = [x for ch in kernel.chains_of(val) for seg in ch for x, _ in seg]
    ys = [y for ch in kernel.chains_of(val) for seg in ch for _, y in seg]
    if not xs:
        return (0, 0)
    cx, cy = (min(xs) + max(xs)), (min(ys) + max(ys))
    if all(isinstance(c, (int, Fraction)) for c in (cx, cy)):
        return (Fraction(cx) / 2, Fraction(cy) / 2)
    return (float(cx) / 2, float(cy) / 2)


def _jp(p):
    return [J(p[0]), J(p[1])]


class Scheduler:
    def __init__(self, prop, seed, run, force=None):
        self.prop = prop
        self.rng = random.Random(f"{seed}:{prop}:{run}")
        self.profile = dict(PROFILES[prop])
        self.cfg = self._swarm(force or {})
        self.pending = []  # steps queued by macros (inverse pairs, mutate-after)
        self.next_slot = 0

    # ------------------------------------------------------------- swarm
    def _swarm(self, force):
        r = self.rng
        cfg = {}
        cfg["numeric"] = r.choices(["int", "frac", "float"], [4, 4, 3])[0]
        cfg["curved"] = r.random() < 0.18
        cfg["nsteps"] = r.randint(3, 14)
        cfg["heap"] = r.randint(3, HEAP_MAX)
        kinds = ["operator", "bquery", "uquery", "copy", "transform", "rerep", "fault"]
        cfg["enabled"] = [k for k in kinds if r.random() < 0.85]
        if not cfg["enabled"]:
            cfg["enabled"] = ["operator", "transform"]
        cfg["faults"] = [k for k in ("cache_drop", "alias_arg", "drop_in_call") if r.random() < 0.7]
        cfg["contact_ok"] = r.random() < 0.25  # partial-contact pairs take part (T1 / frame only)
        cfg["composite_builds"] = r.random() < 0.5
        cfg["big_numbers"] = r.random() < 0.15
        cfg["fracden"] = r.choice([12, 12, 12, 60, 7, 0])  # 0 = a random denominator per number
        cfg.update(force)
        return cfg

    # ------------------------------------------------------------- pick helpers
    def _slot_for_result(self, world):
        if len(world.slots) < self.cfg["heap"]:
            s = self.next_slot
            self.next_slot += 1
            return s
        return self.rng.choice(sorted(world.slots))

    def _oracle_flags(self, step):
        r = self.rng
        p = self.profile
        step["t1"] = r.random() < p["t1"]
        step["t2"] = r.random() < p["t2"]
        step["repeat"] = r.random() < p["repeat"]
        if "drop_in_call" in self.cfg["faults"] and r.random() < 0.12:
            step["drop"] = r.choice(["live", "t1", "t2"])
        if r.random() < p.get("inject", 0.0) and step["op"] not in ("plot", "str", "repr"):
            step["fault"] = {"kfrac": r.random(), "exc": r.choice(FAULT_EXCS),
                             "mode": "structural" if r.random() < 0.85 else "all"}
            step["dst"] = None if "dst" in step else step.get("dst")
        return step

    def _number(self, lo, hi, numeric=None, positive=False):
        r = self.rng
        numeric = numeric or self.cfg["numeric"]
        if numeric == "int":
            lo_i, hi_i = math.ceil(lo), math.floor(hi)
            if positive:
                lo_i = max(1, lo_i)
            return r.randint(lo_i, max(lo_i, hi_i))
        if numeric == "frac":
            den = r.choice([1, 2, 3, 4, 6, 12])
            val = Fraction(r.randint(math.ceil(lo * den), math.floor(hi * den)), den)
            if positive and val <= 0:
                val = Fraction(1, den)
            return val
        val = r.uniform(lo, hi)
        if positive and val <= 0:
            val = 0.5
        return val

    def _den(self):
        d = self.cfg.get("fracden", 12)
        return d if d else self.rng.choice([5, 11, 13, 17, 29, 64, 97, 360])

    # ------------------------------------------------------------- builds
    def variant_build(self, world):
        """A new object denoting the same region as an existing one, built differently:
        other start vertex, optionally a redundant vertex in the middle of an edge."""
        r = self.rng
        names = [n for n in sorted(world.slots) if kernel.kind(world.slots[n].V) in ("S", "J")]
        if not names:
            return None
        a = r.choice(names)
        tag, chain = world.slots[a].V
        chain = list(chain)
        k = r.randrange(len(chain))
        chain = chain[k:] + chain[:k]
        if r.random() < 0.4:
            i = r.randrange(len(chain))
            seg = chain[i]
            if len(seg) == 2:
                (x0, y0), (x1, y1) = seg
                if all(isinstance(c, (int, Fraction)) for c in (x0, y0, x1, y1)):
                    t = r.choice([Fraction(1, 2), Fraction(1, 3), Fraction(3, 4)])
                else:
                    t = 0.5
                m = (x0 + (x1 - x0) * t, y0 + (y1 - y0) * t)
                chain[i:i + 1] = [((x0, y0), m), (m, (x1, y1))]
        dst = self._slot_for_result(world)
        if dst != a:
            # then compare the two (equal regions, different construction), often after a split
            self.pending.append({"macro": "compare_variant", "of": {"a": a, "b": dst}})
        return {"op": "build", "what": "value", "value": model.jsonable((tag, tuple(chain))), "dst": dst}

    def inside_build(self, world, host=None):
        """A small polygon strictly inside a component of an existing shape: pairs in a
        containment relation (short-cut paths of | and &, True answers of `in`)."""
        r = self.rng
        names = [n for n in sorted(world.slots) if kernel.kind(world.slots[n].V) in ("S", "C", "D")
                 and kernel.is_polygonal(world.slots[n].V)]
        if not names:
            return None
        a = host if host in names else r.choice(names)
        chains = [ch for ch in kernel.chains_of(world.slots[a].V) if kernel.chain_area(ch) > 0]
        if not chains:
            return None
        ch = r.choice(chains)
        outer = [seg[0] for seg in ch]
        rational = all(isinstance(c, (int, Fraction)) for v in outer for c in v)
        inner = gen.inner_polygon(r, outer, "frac" if rational else "float")
        if inner is None:
            return None
        if not rational:
            inner = [(float(x), float(y)) for x, y in inner]
        val = ("S", gen.poly_chain(inner))
        # keep clear of every boundary of the host (holes included)
        if kernel.position(val, world.slots[a].V) != "disjoint":
            return None
        return {"op": "build", "what": "value", "value": model.jsonable(val),
                "dst": self._slot_for_result(world)}

    def build_step(self, world):
        st = self._build_step(world)
        if st is not None and self.rng.random() < 0.35:
            st["repeat"] = True  # the same construction twice must give the same object
        return st

    def _build_step(self, world):
        r = self.rng
        cfg = self.cfg
        if world.slots and r.random() < 0.15:
            st = self.variant_build(world)
            if st is not None:
                return st
        if world.slots and r.random() < 0.2:
            st = self.inside_build(world)
            if st is not None:
                return st
        numeric = cfg["numeric"]
        if r.random() < 0.12:
            numeric = r.choice(["int", "frac", "float"])  # mixed-type runs
        dst = self._slot_for_result(world)
        choices = ["polygon", "polygon", "polygon", "square", "triangle", "regular", "primpoly",
                   "jordan", "singleton"]
        if numeric != "float" and r.random() < 0.25:
            choices.append("mixedpoly")
        if cfg["curved"]:
            choices += ["circle", "circle", "quad", "cubic", "spandrel", "dome", "smallcircle", "gentle"]
        if cfg["composite_builds"]:
            choices += ["connected", "disjoint", "inverted"]
        what = r.choice(choices)
        center = (self._number(-3, 3, numeric), self._number(-3, 3, numeric))
        if what == "square":
            return {"op": "build", "what": "square", "side": J(self._number(1, 5, numeric, True)),
                    "center": _jp(center), "dst": dst}
        if what == "triangle":
            return {"op": "build", "what": "triangle", "side": J(self._number(2, 6, numeric, True)),
                    "center": _jp(center), "dst": dst}
        if what == "regular":
            return {"op": "build", "what": "regular", "n": r.randint(3, 8),
                    "radius": J(self._number(1, 4, numeric, True)), "center": _jp(center), "dst": dst}
        if what == "circle":
            return {"op": "build", "what": "circle", "radius": J(self._number(1, 3, numeric, True)),
                    "center": _jp(center), "ndiv": r.choice([4, 4, 5, 6, 8]), "dst": dst}
        if what == "singleton":
            return {"op": "build", "what": "value", "value": r.choice(["E", "W"]), "dst": dst}
        if what == "primpoly":
            verts = gen.polygon(r, numeric, den=self._den())
            return {"op": "build", "what": "polygon", "verts": [_jp(v) for v in verts], "dst": dst}
        if what == "dome":
            chain = gen.dome(r, (float(center[0]), float(center[1])))
            return {"op": "build", "what": "value", "value": model.jsonable(("S", chain)), "dst": dst}
        if what in ("smallcircle", "gentle") and r.random() < 0.7:
            # look at it (plot, print, points, box ...) and then ask about it
            self.pending.append({"macro": "look_then_ask", "of": {"a": dst}})
        if what == "smallcircle":
            # gently curved arcs: the squared error of replacing one by its chord lies between the
            # library's 1e-9 and a careless 1e-6
            return {"op": "build", "what": "circle", "radius": J(r.choice([0.1, 0.15, 0.25])),
                    "center": _jp((float(center[0]), float(center[1]))), "ndiv": r.choice([12, 16]), "dst": dst}
        if what == "gentle":
            verts = gen.polygon(r, "frac", 3, 5)
            n = len(verts)
            chain = []
            for i in range(n):
                a, b = verts[i], verts[(i + 1) % n]
                ax, ay, bx, by = float(a[0]), float(a[1]), float(b[0]), float(b[1])
                t = r.choice([-1, 1]) * r.uniform(0.004, 0.012)
                m = ((ax + bx) / 2 + t * (by - ay), (ay + by) / 2 - t * (bx - ax))
                chain.append(((ax, ay), m, (bx, by)))
            return {"op": "build", "what": "value", "value": model.jsonable(("S", tuple(chain))), "dst": dst}
        if what == "spandrel":
            chain = gen.spandrel(r, (float(center[0]), float(center[1])))
            if kernel.chain_area(chain) < 0:
                chain = gen.reverse_chain(chain)
            return {"op": "build", "what": "value", "value": model.jsonable(("S", chain)), "dst": dst}
        if what in ("quad", "cubic"):
            chain = gen.curved_chain(r, numeric, 2 if what == "quad" else 3)
            if chain is None:
                chain = gen.poly_chain(gen.polygon(r, numeric))
            if r.random() < 0.2:
                chain = gen.reverse_chain(chain)
            return {"op": "build", "what": "value", "value": model.jsonable(("S", chain)), "dst": dst}
        verts = gen.polygon(r, numeric, den=self._den())
        chain = gen.poly_chain(verts)
        if what == "jordan":
            if r.random() < 0.3:
                chain = gen.reverse_chain(chain)
            if cfg["curved"] and r.random() < 0.5:
                # a stand-alone curved curve; a straight edge may be written with three
                # collinear control points (degree-reducible segment)
                cc = gen.curved_chain(r, numeric, 2)
                if cc is not None:
                    chain = cc
            return {"op": "build", "what": "value", "value": model.jsonable(("J", chain)), "dst": dst}
        if what == "mixedpoly":
            # one coordinate float, the other rational: Point2D keeps both kinds
            mixed = tuple(tuple((float(x), y) for (x, y) in seg) for seg in chain)
            return {"op": "build", "what": "value", "value": model.jsonable(("S", mixed)), "dst": dst}
        if what == "inverted":
            return {"op": "build", "what": "value",
                    "value": model.jsonable(("S", gen.reverse_chain(chain))), "dst": dst}
        if what == "connected":
            inner = gen.inner_polygon(r, [(Fraction(x) if not isinstance(x, float) else x, Fraction(y) if not isinstance(y, float) else y) for x, y in verts] if numeric != "float" else verts, numeric)
            if inner is not None and numeric != "float":
                hole = gen.reverse_chain(gen.poly_chain(inner))
                val = ("C", (("S", chain), ("S", hole)))
                return {"op": "build", "what": "value", "value": model.jsonable(val), "dst": dst}
        if what == "disjoint":
            # a second polygon translated clear of the first
            x0, y0, x1, y1 = kernel.bbox([chain])
            shift = (x1 - x0) + 2
            sh = int(math.ceil(shift)) if numeric != "float" else float(shift)
            verts2 = gen.polygon(r, numeric, center=(float(center[0]), float(center[1])))
            ch2 = gen.poly_chain([(x + sh, y) for x, y in verts2])
            if kernel.position(("S", chain), ("S", ch2)) == "disjoint":
                a1, a2 = kernel.chain_area(chain), kernel.chain_area(ch2)
                subs = (("S", chain), ("S", ch2)) if a1 >= a2 else (("S", ch2), ("S", chain))
                return {"op": "build", "what": "value", "value": model.jsonable(("D", subs)), "dst": dst}
        return {"op": "build", "what": "value", "value": model.jsonable(("S", chain)), "dst": dst}

    # ------------------------------------------------------------- operands
    def _shapes(self, world, kinds=None, defined=False):
        out = []
        for n in sorted(world.slots):
            k = kernel.kind(world.slots[n].V)
            if k == "J":
                continue
            if defined and k in ("E", "W"):
                continue
            if kinds and k not in kinds:
                continue
            out.append(n)
        return out

    def _pair(self, world, want_shapes=True):
        """Operand pair for a binary step, in an admissible position."""
        r = self.rng
        names = self._shapes(world)
        if not names:
            return None
        for _ in range(12):
            a = r.choice(names)
            b = r.choice(names)
            if r.random() < 0.08:
                b = a
            if a == b:
                if not kernel.is_polygonal(world.slots[a].V):
                    continue
                return a, b
            pos = kernel.position(world.slots[a].V, world.slots[b].V)
            if pos == "identical" and not kernel.is_polygonal(world.slots[a].V):
                continue  # identical curved boundaries: minutes of Newton iterations per call
            (wa, sa), (wb, sb) = self._curved_cost(world, a), self._curved_cost(world, b)
            if wa * wb - sa * sb > 120:
                continue  # cost bound: segment pairs with a curved member (each a Newton search)
            if pos != "contact" or self.cfg["contact_ok"]:
                return a, b
        return None

    def _curved_cost(self, world, n):
        """(weighted segment count, straight segments) of the live object (splits included):
        straight 1, quadratic 2, cubic 4."""
        live = world.slots[n].live
        jordans = [live] if kernel.kind(world.slots[n].V) == "J" else list(getattr(live, "jordans", ()) or ())
        segs = [seg for j in jordans for seg in j.segments]
        weight = sum({1: 1, 2: 2}.get(seg.degree, 4) for seg in segs)
        return weight, sum(1 for seg in segs if seg.degree == 1)

    def _jordan_index(self, world, n):
        v = world.slots[n].V
        nch = len(kernel.chains_of(v))
        return self.rng.randrange(nch) if nch else 0

    # ------------------------------------------------------------- step kinds
    def operator_step(self, world):
        r = self.rng
        if r.random() < 0.2:
            names = self._shapes(world)
            if not names:
                return None
            a = r.choice(names)
            step = {"op": r.choice(ops.UNARY_OPERATORS), "a": a, "dst": self._slot_for_result(world)}
            return self._oracle_flags(step)
        pair = self._pair(world)
        if pair is None:
            return None
        op = r.choices(ops.BINARY_OPERATORS, [5, 5, 5, 5, 1, 1, 1, 1, 1, 1])[0]
        step = {"op": op, "a": pair[0], "b": pair[1], "dst": self._slot_for_result(world)}
        return self._oracle_flags(step)

    def bquery_step(self, world):
        r = self.rng
        kind = r.choice(["in_shape", "in_shape", "contains_jordan", "eq", "eq", "ne", "jinter", "jand"])
        if kind in ("jinter", "jand"):
            names = [n for n in sorted(world.slots) if kernel.kind(world.slots[n].V) not in ("E", "W")]
            if len(names) < 1:
                return None
            a, b = r.choice(names), r.choice(names)
            step = {"op": kind, "a": a, "b": b, "ka": self._jordan_index(world, a),
                    "kb": self._jordan_index(world, b)}
            if kind == "jinter":
                step["equal_beziers"] = r.random() < 0.5
                step["end_points"] = r.random() < 0.5
            return self._oracle_flags(step)
        pair = self._pair(world)
        if pair is None:
            return None
        a, b = pair
        ka, kb = kernel.kind(world.slots[a].V), kernel.kind(world.slots[b].V)
        if kind == "contains_jordan":
            if ka in ("E", "W") or kb in ("E", "W"):
                return None
            step = {"op": kind, "a": a, "b": b, "k": self._jordan_index(world, b),
                    "boundary": r.random() < 0.7}
            return self._oracle_flags(step)
        if kind in ("eq", "ne"):
            if ka in ("E", "W") and kb not in ("E", "W"):
                a, b = b, a  # singletons define no __eq__; keep them on the right
        if kind == "in_shape" and ka == "E" and False:
            return None
        step = {"op": kind, "a": a, "b": b}
        return self._oracle_flags(step)

    def uquery_step(self, world, target=None):
        r = self.rng
        names = sorted(world.slots)
        if not names:
            return None
        a = target if target in world.slots else r.choice(names)
        v = world.slots[a].V
        k = kernel.kind(v)
        if k == "J":
            kind = r.choice(["jlen", "jlen", "box", "points", "str", "repr", "jarea", "in_point"])
        elif k in ("E", "W"):
            kind = r.choice(["area", "bool", "str", "repr", "in_point", "plot"])
        else:
            kind = r.choice(["area", "area", "moment", "moment", "jlen", "jlen", "box", "in_point",
                             "in_point", "contains_point", "contains_point", "points", "str",
                             "repr", "plot", "bool"])
        if k not in ("E", "W") and r.random() < 0.06:
            kind = r.choice(["seg_derivate", "seg_eval"])
        step = {"op": kind, "a": a}
        if kind == "seg_derivate":
            step.update(k=self._jordan_index(world, a), i=r.randrange(64), times=r.choice([1, 1, 2, 3]))
        if kind == "seg_eval":
            step.update(k=self._jordan_index(world, a), i=r.randrange(64), t=J(Fraction(r.randint(0, 8), 8)))
        if kind == "moment":
            ea = r.randint(0, 2)
            step["ea"], step["eb"] = ea, r.randint(0, 2 - ea)
            if r.random() < 0.15:
                step["nnodes"] = r.choice([1, 2, 3, 9, 12])  # a user-chosen quadrature order
        if kind in ("jlen", "points", "jarea"):
            step["k"] = self._jordan_index(world, a)
        if kind == "points":
            step["n"] = r.choice([0, 1, 2, 3])
        if kind in ("in_point", "contains_point"):
            exact = kernel.is_rational(v) and kernel.is_polygonal(v) if not isinstance(v, str) else True
            pts = gen.query_points(r, [v], 1, exact, self.cfg["numeric"])
            if not pts:
                return None
            step["p"] = _jp(pts[0])
            if r.random() < 0.35:
                step["pform"] = "point2d"  # a caller-owned Point2D that must come back unchanged
            if kind == "contains_point":
                step["boundary"] = r.random() < 0.5
            if not isinstance(v, str) and not kernel.is_polygonal(v) and r.random() < 0.3:
                # two points on the same curved segment, far apart in parameter: compared with
                # deep-copy twins only (the answer near a curved boundary depends on the chords)
                csegs = [seg for ch in kernel.chains_of(v) for seg in ch if len(seg) > 2]
                sg = r.choice(csegs)
                fs = tuple((float(x), float(y)) for x, y in sg)
                t1, t2 = r.choice([(0.9, 0.1), (0.1, 0.9), (0.85, 0.2), (0.3, 0.7)])
                first = dict(step, p=_jp(kernel.seg_eval(fs, t1)), t1=True, t2=False, repeat=False, noisy_point=True)
                second = dict(step, p=_jp(kernel.seg_eval(fs, t2)), t1=True, t2=False, repeat=False, noisy_point=True)
                if kind == "contains_point":
                    first["boundary"] = second["boundary"] = r.random() < 0.5
                self.pending.insert(0, second)
                return first
            if not isinstance(v, str) and r.random() < 0.15:
                # a point a few 1e-6 away from an edge: just outside the library's nominal
                # point-on-boundary tolerance (1e-6), where a drifting tolerance shows first
                segs = [seg for ch in kernel.chains_of(v) for seg in ch if len(seg) == 2]
                segs = [sg for sg in segs if abs(float(sg[1][0] - sg[0][0])) > 0.2 and abs(float(sg[1][1] - sg[0][1])) > 0.2]
                if segs:
                    sg = r.choice(segs)
                    ax, ay, bx, by = float(sg[0][0]), float(sg[0][1]), float(sg[1][0]), float(sg[1][1])
                    t = r.uniform(0.2, 0.8)
                    ln = math.hypot(bx - ax, by - ay)
                    off = r.choice([-1, 1]) * r.uniform(2.5e-6, 9e-6)
                    q = (ax + t * (bx - ax) - off * (by - ay) / ln, ay + t * (by - ay) + off * (bx - ax) / ln)
                    step["p"] = _jp(q)
                    st = self._oracle_flags(step)
                    if not kernel.is_polygonal(v):
                        st["t2"] = False
                    st["noisy_point"] = True
                    return st
            if not exact and not isinstance(v, str) and kernel.is_polygonal(v) and r.random() < 0.2:
                # a point on an edge up to float rounding: on the boundary for the library
                ch = r.choice(kernel.chains_of(v))
                seg = r.choice(ch)
                t = r.choice([1 / 3, 0.3, 0.7, 2 / 3])
                q = (float(seg[0][0]) + t * (float(seg[1][0]) - float(seg[0][0])),
                     float(seg[0][1]) + t * (float(seg[1][1]) - float(seg[0][1])))
                step["p"] = _jp(q)
                step["pform"] = "point2d"
                st = self._oracle_flags(step)
                st["t2"] = False
                st["noisy_point"] = True
                return st
        return self._oracle_flags(step)

    def copy_step(self, world):
        r = self.rng
        names = sorted(world.slots)
        a = r.choice(names)
        k = kernel.kind(world.slots[a].V)
        if k == "J":
            kind = r.choice(["copy", "deepcopy", "jinv", "jabs", "simple_from_jordan"])
        elif k in ("E", "W"):
            kind = r.choice(["copy", "deepcopy"])
        else:
            kind = r.choice(["copy", "deepcopy", "deepcopy", "simple_from_jordan", "jcopy", "jinv", "jabs"])
        step = {"op": kind, "a": a, "dst": self._slot_for_result(world)}
        if kind in ("simple_from_jordan", "jcopy", "jinv", "jabs"):
            step["k"] = self._jordan_index(world, a)
        return self._oracle_flags(step)

    def transform_step(self, world, target=None):
        r = self.rng
        names = [n for n in sorted(world.slots) if kernel.kind(world.slots[n].V) not in ("E", "W")]
        if not names:
            return None
        a = target if target in names else r.choice(names)
        k = kernel.kind(world.slots[a].V)
        kinds = ["move", "move", "scale", "scale", "rotate", "rotate"]
        if k in ("S", "J"):
            kinds.append("invert")
        kind = r.choice(kinds)
        numeric = self.cfg["numeric"]
        if r.random() < 0.25:
            numeric = r.choice(["int", "frac", "float"])
        big = self.cfg["big_numbers"]
        if kind == "move":
            span = 1000 if big else 6
            v = (self._number(-span, span, numeric), self._number(-span, span, numeric))
            others = [n for n in names if n != a]
            if others and r.random() < 0.3:
                # move onto (or next to) another object: the spatial relation between the two changes
                ca, cb = _center(world.slots[a].V), _center(world.slots[r.choice(others)].V)
                jitter = r.choice([0, 0, Fraction(1, 3), Fraction(-1, 2)])
                v = (cb[0] - ca[0] + jitter, cb[1] - ca[1])
            if r.random() < 0.08:
                # tiny and zero translations are translations too
                # (rational parameters keep denominators <= 10**9: Point2D stores a vector
                # with limit_denominator(10**9), the library's documented resolution)
                tiny = [0, Fraction(1, 10**9), -Fraction(1, 10**9), 5e-10, -1e-12, Fraction(1, 10**6)]
                v = (r.choice(tiny), r.choice(tiny))
            forms = ["args", "tuple", "args", "tuple", "list", "iter", "gen", "point2d", "nparray"]
            return {"op": "move", "a": a, "v": _jp(v), "form": r.choice(forms)}
        if kind == "scale":
            # explored space: coordinates stay below 1e5 (the library's tolerances are absolute)
            extent = max([1.0] + [abs(float(c)) for c in kernel.coords_of(world.slots[a].V)])
            if extent * (100 if big else 4) > 1e5:
                big = False
                if extent * 4 > 1e5:
                    sx = Fraction(1, r.randint(2, 8)) if numeric != "float" else r.uniform(0.1, 0.5)
                    return {"op": "scale", "a": a, "sx": J(sx), "sy": J(sx)}
            if r.random() < 0.1:
                # one float and one rational factor: vertices with one float and one rational
                # coordinate (Point2D keeps both kinds)
                fl, ra = r.uniform(0.5, 2.0), Fraction(r.randint(1, 4), r.randint(1, 4))
                sx, sy = (fl, ra) if r.random() < 0.5 else (ra, fl)
                return {"op": "scale", "a": a, "sx": J(sx), "sy": J(sy)}
            if r.random() < 0.06:
                near = [1, 1, 1.0, 1 + 1e-12, Fraction(10**9 + 1, 10**9), Fraction(10**6 - 1, 10**6)]
                return {"op": "scale", "a": a, "sx": J(r.choice(near)), "sy": J(r.choice(near))}
            if numeric == "float":
                lo, hi = (0.01, 100) if big else (0.25, 4)
                sx = math.exp(r.uniform(math.log(lo), math.log(hi)))
                sy = sx if r.random() < 0.4 else math.exp(r.uniform(math.log(lo), math.log(hi)))
            elif numeric == "int":
                sx = r.randint(1, 100 if big else 4)
                sy = sx if r.random() < 0.4 else r.randint(1, 100 if big else 4)
            else:
                sx = Fraction(r.randint(1, 8), r.randint(1, 8))
                sy = sx if r.random() < 0.4 else Fraction(r.randint(1, 8), r.randint(1, 8))
            return {"op": "scale", "a": a, "sx": J(sx), "sy": J(sy)}
        if kind == "rotate":
            last = getattr(self, "_last_angle", None)
            if last is not None and r.random() < 0.15:
                # almost the angle of an earlier rotation (same to 6 significant digits)
                ang = last * (1 + r.choice([3e-8, -2e-8, 4e-7]))
                self._last_angle = None
                return {"op": "rotate", "a": a, "angle": J(ang), "degrees": None}
            if r.random() < 0.06:
                ang = r.choice([0, 1e-10, -1e-12, 360, 720, -360, 360.0, 180, -180, 540])
                return {"op": "rotate", "a": a, "angle": J(ang), "degrees": ang not in (1e-10, -1e-12) or None}
            if r.random() < 0.5:
                ang = r.choice([30, 45, 90, 180, 270, -60, 17, 360]) if r.random() < 0.5 else r.uniform(-360, 360)
                st = {"op": "rotate", "a": a, "angle": J(ang), "degrees": True, "dkw": r.random() < 0.5}
                if r.random() < 0.2:
                    st["aform"] = r.choice(["ndarray", "npfloat"])
                    st["angle"] = J(float(ang))
                return st
            ang = r.uniform(-math.tau, math.tau) if r.random() < 0.8 else r.choice([1, 2, 3, -1])
            self._last_angle = float(ang)
            deg = r.choice([None, False])
            return {"op": "rotate", "a": a, "angle": J(ang), "degrees": deg}
        st = {"op": "invert", "a": a}
        if k == "S" and r.random() < 0.4:
            st["via"] = "jordan"
        return st

    def inverse_pair(self, world):
        """Macro: snapshot, ==, T, T^-1, == (same answer expected)."""
        r = self.rng
        names = self._shapes(world, defined=True)
        if not names or len(world.slots) >= HEAP_MAX + 2:
            return None
        a = r.choice(names)
        snap = self.next_slot
        self.next_slot += 1
        base = len(world.steps)
        steps = [{"op": "build", "what": "value", "value": model.jsonable(world.slots[a].V), "dst": snap},
                 {"op": "eq", "a": a, "b": snap, "t1": False, "t2": False}]
        numeric = self.cfg["numeric"]
        kind = r.choice(["move", "scale", "rotate"])
        if kind == "move":
            v = (self._number(-6, 6, numeric), self._number(-6, 6, numeric))
            steps.append({"op": "move", "a": a, "v": _jp(v), "form": "args"})
            steps.append({"op": "move", "a": a, "v": _jp((-v[0], -v[1])), "form": "tuple"})
        elif kind == "scale":
            if numeric == "float":
                sx, sy = r.uniform(0.3, 3), r.uniform(0.3, 3)
                inv = (1 / sx, 1 / sy)
            else:
                sx, sy = Fraction(r.randint(1, 6), r.randint(1, 6)), Fraction(r.randint(1, 6), r.randint(1, 6))
                inv = (1 / sx, 1 / sy)
            steps.append({"op": "scale", "a": a, "sx": J(sx), "sy": J(sy)})
            steps.append({"op": "scale", "a": a, "sx": J(inv[0]), "sy": J(inv[1])})
        else:
            if r.random() < 0.5:
                ang = r.choice([30, 90, 180, 45, 123])
                steps.append({"op": "rotate", "a": a, "angle": J(ang), "degrees": True})
                steps.append({"op": "rotate", "a": a, "angle": J(-ang), "degrees": True})
            else:
                ang = r.uniform(-3, 3)
                steps.append({"op": "rotate", "a": a, "angle": J(ang), "degrees": None})
                steps.append({"op": "rotate", "a": a, "angle": J(-ang), "degrees": False})
        steps.append({"op": "eq", "a": a, "b": snap, "t1": False, "t2": False,
                      "same_answer_as": base + 1, "needs": [base + 2, base + 3]})
        return steps

    def consequence_macro(self, world):
        """Macro for C09: ask (containment of p, area, a moment), transform, ask again about
        T(p) / the same quantity: the answers must be related as the affine map says."""
        r = self.rng
        names = self._shapes(world, defined=True)
        if not names:
            return None
        a = r.choice(names)
        v = world.slots[a].V
        base = len(world.steps)
        numeric = self.cfg["numeric"]
        exact = kernel.is_rational(v) and kernel.is_polygonal(v)
        pts = gen.query_points(r, [v], 1, False, numeric)
        if not pts:
            return None
        p = pts[0]
        kind = r.choice(["move", "scale", "rotate"])
        ea = r.randint(0, 1)
        eb = r.randint(0, 1 - ea)
        if kind == "move":
            d = (self._number(-6, 6, numeric), self._number(-6, 6, numeric))
            tstep = {"op": "move", "a": a, "v": _jp(d), "form": r.choice(["args", "tuple"])}
            tp = (p[0] + d[0], p[1] + d[1])
            det = 1
            mom_ratio = 1 if (ea, eb) == (0, 0) else None
        elif kind == "scale":
            if numeric == "float":
                sx, sy = r.uniform(0.3, 3), r.uniform(0.3, 3)
            else:
                sx, sy = Fraction(r.randint(1, 6), r.randint(1, 6)), Fraction(r.randint(1, 6), r.randint(1, 6))
            tstep = {"op": "scale", "a": a, "sx": J(sx), "sy": J(sy)}
            tp = (p[0] * sx, p[1] * sy)
            det = sx * sy
            mom_ratio = sx ** (ea + 1) * sy ** (eb + 1)
        else:
            ang = r.uniform(-3.1, 3.1)
            tstep = {"op": "rotate", "a": a, "angle": J(ang), "degrees": None}
            c, sn = math.cos(ang), math.sin(ang)
            tp = (c * float(p[0]) - sn * float(p[1]), sn * float(p[0]) + c * float(p[1]))
            det = 1
            mom_ratio = 1 if (ea, eb) == (0, 0) else None
        steps = [
            {"op": "contains_point", "a": a, "p": _jp(p), "boundary": True, "t1": False, "t2": False},
            {"op": "area", "a": a, "t1": False, "t2": False},
            {"op": "moment", "a": a, "ea": ea, "eb": eb, "t1": False, "t2": False},
            tstep,
            {"op": "contains_point", "a": a, "p": _jp(tp), "boundary": True, "t1": False, "t2": True,
             "expect": {"kind": "same_bool", "ref": base, "p": _jp(p)}, "needs": [base + 3]},
            {"op": "area", "a": a, "t1": False, "t2": True,
             "expect": {"kind": "ratio", "ref": base + 1, "ratio": J(det)}, "needs": [base + 3]},
        ]
        if mom_ratio is not None:
            steps.append({"op": "moment", "a": a, "ea": ea, "eb": eb, "t1": False, "t2": True,
                          "expect": {"kind": "ratio", "ref": base + 2, "ratio": J(mom_ratio)},
                          "needs": [base + 3]})
        return steps

    def rerep_step(self, world):
        r = self.rng
        names = [n for n in sorted(world.slots) if kernel.kind(world.slots[n].V) not in ("E", "W")]
        if not names:
            return None
        a = r.choice(names)
        k = self._jordan_index(world, a)
        jor = ops.jordan_of(world.slots[a].live, k)
        nseg = len(jor.segments)
        if r.random() < 0.25:
            return {"op": "clean", "a": a, "k": k}
        m = r.randint(1, 3)
        idx = sorted(r.randrange(nseg) for _ in range(m))
        nodes = [r.choice([Fraction(1, 4), Fraction(1, 3), Fraction(1, 2), Fraction(2, 3), Fraction(3, 4)])
                 for _ in idx]
        # one node per (segment, value) pair
        seen, pidx, pnodes = set(), [], []
        for i, nd in zip(idx, nodes):
            if (i, nd) not in seen:
                seen.add((i, nd))
                pidx.append(i)
                pnodes.append(J(nd))
        return {"op": "split", "a": a, "k": k, "idx": pidx, "nodes": pnodes}

    def congruent_macro(self, world):
        """x and a translated deep copy of x united: components with exactly equal area and
        length, whose order nothing but an arbitrary tie-break decides."""
        r = self.rng
        names = [n for n in self._shapes(world, kinds=("S",)) if kernel.is_polygonal(world.slots[n].V)]
        if not names or len(world.slots) > HEAD_ROOM:
            return None
        a = r.choice(names)
        x0, y0, x1, y1 = kernel.bbox(kernel.chains_of(world.slots[a].V))
        s1, s2 = self.next_slot, self.next_slot + 1
        self.next_slot += 2
        shift = int(math.ceil(x1 - x0)) + r.randint(1, 3)
        self.cfg["congruent"] = True
        return [{"op": "deepcopy", "a": a, "dst": s1, "t1": False, "t2": False, "repeat": False},
                {"op": "move", "a": s1, "v": _jp((shift, 0)), "form": "args"},
                self._no_fault(self._oracle_flags({"op": "or", "a": a, "b": s1, "dst": s2}), s2),
                self._oracle_flags({"op": "jlen", "a": s2, "k": 0}),
                self._oracle_flags({"op": "inv", "a": s2, "dst": None})]

    @staticmethod
    def _no_fault(step, dst):
        step.pop("fault", None)
        step["dst"] = dst
        return step

    def global_probe(self, world):
        """Ask; run an unrelated curved intersection on two fresh circles; ask the same again.
        Process-global state written by the unrelated operation (a class attribute used as
        scratch space, a tolerance adapted to 'the last curves seen') shows as a changed answer."""
        r = self.rng
        names = [n for n in sorted(world.slots) if kernel.kind(world.slots[n].V) in ("S", "C", "D")]
        if not names or len(world.slots) > HEAD_ROOM:
            return None
        a = r.choice(names)
        q = None
        for _ in range(6):
            q = self.uquery_step(world, target=a)
            if q is not None and q["op"] in ("in_point", "contains_point"):
                break
            q = None
        if q is None:
            return None
        q["t1"] = True
        base = len(world.steps)
        s1, s2 = self.next_slot, self.next_slot + 1
        self.next_slot += 2
        rad = r.choice([3.0, 5.0, 8.0, 40.0])
        c1 = {"op": "build", "what": "circle", "radius": J(rad), "center": _jp((-rad / 2 + 20.0, 30.0)),
              "ndiv": 4, "dst": s1}
        c2 = {"op": "build", "what": "circle", "radius": J(rad), "center": _jp((rad / 2 + 20.0, 30.0)),
              "ndiv": 4, "dst": s2}
        op = {"op": r.choice(["and", "or"]), "a": s1, "b": s2, "dst": None, "t1": False, "t2": False,
              "repeat": False}
        q2 = {k: v for k, v in q.items() if k not in ("fault", "drop")}
        q2.update(same_answer_as=base, needs=[base + 3], stability=True, t1=True, t2=False)
        return [q, c1, c2, op, q2]

    def memo_probe(self, world):
        """Buggify the module-level memo tables: with cold tables, ask a segment for a higher
        derivative (or a point) first, then ask an ordinary query with the tables dropped
        between the live evaluation and the twins."""
        r = self.rng
        names = [n for n in sorted(world.slots) if kernel.kind(world.slots[n].V) not in ("E", "W")]
        if not names:
            return None
        a = r.choice(names)
        k = self._jordan_index(world, a)
        first = {"op": "seg_derivate", "a": a, "k": k, "i": r.randrange(64), "times": r.choice([1, 2, 2, 3]),
                 "t1": True, "t2": False, "repeat": False, "drop": "live"}
        if r.random() < 0.25 and kernel.kind(world.slots[a].V) != "J":
            first = {"op": "moment", "a": a, "ea": r.randint(0, 1), "eb": 0, "nnodes": r.choice([1, 2, 9]),
                     "t1": True, "t2": False, "repeat": False, "drop": "live"}
        elif r.random() < 0.25:
            first = {"op": "seg_eval", "a": a, "k": k, "i": r.randrange(64), "t": J(Fraction(r.randint(0, 4), 4)),
                     "t1": True, "t2": False, "repeat": False, "drop": "live"}
        follow = None
        for _ in range(5):
            follow = self.uquery_step(world, target=a)
            if follow is not None and follow["op"] in ("area", "jlen", "moment", "in_point", "contains_point", "jarea"):
                break
            follow = None
        if follow is not None:
            follow["t1"] = follow["t2"] = True
            follow["drop"] = r.choice(["t1", "t1", "t2"])
            self.pending.insert(0, follow)
        return first

    def fault_step(self, world):
        r = self.rng
        kinds = [k for k in self.cfg["faults"] if k in ("cache_drop", "alias_arg")]
        if not kinds:
            return None
        kind = r.choice(kinds)
        if kind == "cache_drop":
            x = r.random()
            if x < 0.4:
                st = self.memo_probe(world)
                if st is not None:
                    return st
            elif x < 0.65:
                steps = self.global_probe(world)
                if steps:
                    self.pending = steps[1:] + self.pending
                    return steps[0]
            return {"op": "cache_drop"}
        sources = [n for n in sorted(world.slots) if kernel.kind(world.slots[n].V) not in ("E", "W")]
        targets = list(sources)  # shapes and stand-alone curves
        if not targets or not sources:
            return None
        a = r.choice(targets)
        src = a if r.random() < 0.6 else r.choice(sources)
        return {"op": "alias_move", "a": a, "src": src, "k": self._jordan_index(world, src),
                "vi": r.randrange(64)}

    # ------------------------------------------------------------- main loop
    def prelude(self, world):
        """Some runs start from a related scene: a composite host and a piece inside one of
        its components (containment relations are rare among independently drawn shapes)."""
        r = self.rng
        numeric = self.cfg["numeric"] if self.cfg["numeric"] != "float" else "frac"
        verts = gen.polygon(r, numeric, 4, 7, rmin=2.5, rmax=4.0, den=self._den())
        chain = gen.poly_chain(verts)
        kind = r.choice(["connected", "disjoint", "simple"])
        host = ("S", chain)
        if kind == "connected":
            inner = gen.inner_polygon(r, verts, numeric)
            if inner is not None:
                host = ("C", (("S", chain), ("S", gen.reverse_chain(gen.poly_chain(inner)))))
        elif kind == "disjoint":
            x0, y0, x1, y1 = kernel.bbox([chain])
            sh = int(math.ceil(x1 - x0)) + 2
            verts2 = gen.polygon(r, numeric, 3, 6, den=self._den())
            ch2 = gen.poly_chain([(x + sh, y) for x, y in verts2])
            if kernel.position(("S", chain), ("S", ch2)) == "disjoint":
                a1, a2 = kernel.chain_area(chain), kernel.chain_area(ch2)
                host = ("D", (("S", chain), ("S", ch2)) if a1 >= a2 else (("S", ch2), ("S", chain)))
        if self.cfg["numeric"] == "float":
            host = model.map_value(host, lambda x, y: (float(x), float(y)))
        d0 = self.next_slot
        self.next_slot += 1
        return [{"op": "build", "what": "value", "value": model.jsonable(host), "dst": d0},
                {"macro": "inside_of", "of": {"a": d0}}]

    def attach_keys(self, world, step):
        """Record the geometric key of every boundary curve a step selects by index."""
        if step is None or "macro" in step:
            return step
        for kname, keyname, slotname in (("k", "kkey", "b" if step.get("op") == "contains_jordan" else "a"),
                                         ("ka", "kakey", "a"), ("kb", "kbkey", "b")):
            if kname in step and step.get(slotname) in world.slots:
                live = world.slots[step[slotname]].live
                if kernel.kind(world.slots[step[slotname]].V) in ("C", "D"):
                    jordans = live.jordans
                    if 0 <= step[kname] < len(jordans):
                        step[keyname] = [float(c) for c in ops._chain_key(jordans[step[kname]])]
        return step

    def next_step(self, world):
        return self.attach_keys(world, self._next_step(world))

    def _next_step(self, world):
        if self.pending:
            return self.pending.pop(0)
        r = self.rng
        if not world.steps and not world.slots and r.random() < self.profile.get("prelude", 0.25):
            steps = self.prelude(world)
            self.pending = steps[1:]
            return steps[0]
        if len([n for n in world.slots if kernel.kind(world.slots[n].V) != "J"]) < 2:
            return self.build_step(world)
        # targeting aid: two heap objects share mutable state -> transform one of them now
        shared = self._shared_pair(world)
        if shared is not None and r.random() < 0.9:
            st = self.transform_step(world, target=r.choice(shared))
            if st is not None:
                return st
        p = self.profile
        kinds = ["build"] + list(self.cfg["enabled"])
        weights = [p[k] for k in kinds]
        for _ in range(8):
            kind = r.choices(kinds, weights)[0]
            if kind == "build":
                if len(world.slots) >= self.cfg["heap"] and r.random() < 0.7:
                    continue
                return self.build_step(world)
            if kind == "transform" and self.prop == "C09" and r.random() < 0.25:
                steps = self.inverse_pair(world)
                if steps:
                    self.pending = steps[1:]
                    return steps[0]
            if kind == "transform" and r.random() < (0.3 if self.prop == "C09" else 0.08):
                steps = self.consequence_macro(world)
                if steps:
                    self.pending = steps[1:]
                    return steps[0]
            step = getattr(self, kind + "_step")(world)
            if step is None:
                continue
            if kind == "transform" and r.random() < p.get("scene", 0.1):
                steps = self.scene_macro(world)
                if steps:
                    self.pending = steps[1:] + self.pending
                    return steps[0]
            if kind == "transform" and r.random() < p.get("sandwich", 0.2):
                # ask, transform, ask the same again: state carried across the transformation
                q = self._query_about(world, step["a"])
                if q is not None:
                    q2 = dict(q)
                    q2["t1"] = True
                    self.pending = [step, {"macro": "same_query", "of": q2}] + self.pending
                    return q
            if kind == "transform" and r.random() < p.get("query_after", 0.3):
                self.pending.append({"macro": "query_after", "of": step})
            if kind == "operator" and r.random() < 0.06:
                steps = self.congruent_macro(world)
                if steps:
                    self.pending = steps[1:] + self.pending
                    return steps[0]
            if kind in ("operator", "bquery") and "b" in step and step["op"] in ops.BINARY_OPERATORS + ("in_shape", "eq", "ne") \
                    and r.random() < p.get("pair_again", 0.35):
                # the same pair again, in another order / under another operator: this is
                # where the in-place splitting left by the first call bites
                self.pending.append({"macro": "pair_again", "of": step})
            if kind in ("operator", "copy") and r.random() < p["mutate_after"]:
                # follow with an in-place mutation of the result or of an operand
                self.pending.append({"macro": "mutate_after", "of": step})
            return step
        return self.build_step(world)

    def contained_pairs(self, world):
        """(container, inner) pairs of heap shapes: boundaries clear of each other and a
        vertex of `inner` inside `container` (decided by the kernel on model values)."""
        names = self._shapes(world, defined=True)
        out = []
        for a in names:
            va = world.slots[a].V
            reg = None
            for b in names:
                if a == b:
                    continue
                vb = world.slots[b].V
                x0, y0, x1, y1 = kernel.bbox(kernel.chains_of(va))
                u0, w0, u1, w1 = kernel.bbox(kernel.chains_of(vb))
                if u0 < x0 or u1 > x1 or w0 < y0 or w1 > y1:
                    continue
                if kernel.position(va, vb) != "disjoint":
                    continue
                if reg is None:
                    reg = kernel.Region(va)
                p = kernel.chains_of(vb)[0][0][0]
                if reg.member(p) is True:
                    out.append((a, b))
        return out

    def scene_macro(self, world):
        """Ask about a pair, apply the SAME transformation to both, ask again."""
        r = self.rng
        names = self._shapes(world, defined=True)
        if len(names) < 2:
            return None
        x = r.choice(names)
        q = None
        pairs = self.contained_pairs(world) if r.random() < 0.75 else []
        if pairs:
            a, b = r.choice(pairs)
            q = self._oracle_flags({"op": "in_shape", "a": a, "b": b})
        for _ in range(0 if q is not None else 4):
            q = self._query_about(world, x)
            if q is not None and "b" in q and q["a"] != q["b"] \
                    and kernel.kind(world.slots[q["a"]].V) in ("S", "C", "D") \
                    and kernel.kind(world.slots[q["b"]].V) in ("S", "C", "D"):
                break
            q = None
        if q is None:
            return None
        t = self.transform_step(world, target=q["a"])
        if t is None or t["op"] == "invert":
            return None
        t2 = dict(t)
        t2["a"] = q["b"]
        q2 = dict(q)
        q2.pop("fault", None)
        q2["t1"] = q2["t2"] = True
        return [q, t, t2, q2]

    def _query_about(self, world, target):
        """A unary or binary query in which `target` takes part."""
        r = self.rng
        if target not in world.slots:
            return None
        if r.random() < 0.5:
            for _ in range(4):
                st = self.uquery_step(world, target=target)
                if st is not None and st["op"] not in ("str", "repr", "plot", "points"):
                    return st
            return None
        k = kernel.kind(world.slots[target].V)
        others = [n for n in self._shapes(world) if n != target]
        if not others or k == "J":
            return None
        other = r.choice(others)
        kind = r.choice(["in_shape", "in_shape", "in_shape", "eq", "contains_jordan"])
        a, b = (target, other) if r.random() < 0.5 else (other, target)
        ka, kb = kernel.kind(world.slots[a].V), kernel.kind(world.slots[b].V)
        if kind == "contains_jordan":
            if ka in ("E", "W") or kb in ("E", "W"):
                kind = "in_shape"
            else:
                return self._oracle_flags({"op": kind, "a": a, "b": b, "k": self._jordan_index(world, b),
                                           "boundary": r.random() < 0.7})
        if kind == "eq" and ka in ("E", "W") and kb not in ("E", "W"):
            a, b = b, a
        return self._oracle_flags({"op": kind, "a": a, "b": b})

    def resolve_macro(self, world, macro):
        return self.attach_keys(world, self._resolve_macro(world, macro))

    def _resolve_macro(self, world, macro):
        """Turn a queued macro into a concrete step (needs the heap after the previous step)."""
        of = macro["of"]
        if macro["macro"] == "look_then_ask":
            a = of["a"]
            if a not in world.slots:
                return None
            look = self._oracle_flags({"op": self.rng.choice(["plot", "plot", "str", "points", "box"]), "a": a})
            if look["op"] == "points":
                look.update(k=0, n=self.rng.choice([0, 2]))
            look.pop("fault", None)
            ask = self._oracle_flags({"op": "area", "a": a})
            ask["t1"] = ask["t2"] = True
            ask.pop("fault", None)
            self.pending.insert(0, ask)
            return look
        if macro["macro"] == "inside_of":
            return self.inside_build(world, host=of["a"])
        if macro["macro"] == "same_query":
            for key in ("a", "b"):
                if key in of and of[key] not in world.slots:
                    return None
            st = dict(of)
            st.pop("fault", None)
            st.pop("noisy_point", None)
            if st["op"] in ("in_point", "contains_point"):
                # the point asked before the transformation may now be too close to the
                # boundary for a crisp answer: draw a new admissible one
                v = world.slots[st["a"]].V
                exact = (not isinstance(v, str)) and kernel.is_rational(v) and kernel.is_polygonal(v)
                pts = gen.query_points(self.rng, [v], 1, exact or isinstance(v, str), self.cfg["numeric"])
                if not pts:
                    return None
                st["p"] = _jp(pts[0])
            return st
        if macro["macro"] == "compare_variant":
            a, b = of["a"], of["b"]
            if a not in world.slots or b not in world.slots:
                return None
            stage = macro.get("stage", 0)
            if stage == 0 and self.rng.random() < 0.6:
                # first leave redundant vertices on one of them
                tgt = self.rng.choice([a, b])
                jor = ops.jordan_of(world.slots[tgt].live, 0)
                nseg = len(jor.segments)
                self.pending.insert(0, {"macro": "compare_variant", "of": of, "stage": 1})
                return {"op": "split", "a": tgt, "k": 0, "idx": [self.rng.randrange(nseg)],
                        "nodes": [J(self.rng.choice([Fraction(1, 2), Fraction(1, 3), Fraction(3, 4)]))]}
            if self.rng.random() < 0.5:
                a, b = b, a
            kinds = ["eq", "ne", "in_shape"] if kernel.kind(world.slots[a].V) != "J" else ["eq", "ne"]
            st = self._oracle_flags({"op": self.rng.choice(kinds), "a": a, "b": b})
            st["t1"] = st["t2"] = True
            return st
        if macro["macro"] == "pair_again":
            a, b = of.get("a"), of.get("b")
            if a not in world.slots or b not in world.slots:
                return None
            if self.rng.random() < 0.5:
                a, b = b, a
            if self.rng.random() < 0.75:
                op = self.rng.choices(ops.BINARY_OPERATORS, [5, 5, 5, 5, 1, 1, 1, 1, 1, 1])[0]
                st = {"op": op, "a": a, "b": b, "dst": self._slot_for_result(world)}
            else:
                st = {"op": self.rng.choice(["in_shape", "eq", "ne"]), "a": a, "b": b}
                ka, kb = kernel.kind(world.slots[a].V), kernel.kind(world.slots[b].V)
                if st["op"] in ("eq", "ne") and ka in ("E", "W") and kb not in ("E", "W"):
                    st["a"], st["b"] = b, a
            st = self._oracle_flags(st)
            st["t2"] = True
            return st
        if macro["macro"] == "query_after":
            if of.get("a") not in world.slots:
                return None
            for _ in range(6):
                st = self.uquery_step(world, target=of["a"])
                if st is not None and st["op"] not in ("str", "repr", "plot", "points"):
                    st["t1"] = True
                    return st
            return None
        cands = [of[k] for k in ("dst", "a", "b") if of.get(k) is not None and of.get(k) in world.slots]
        cands = [n for n in cands if kernel.kind(world.slots[n].V) not in ("E", "W")]
        if not cands:
            return None
        # prefer the result, then operands
        target = cands[0] if self.rng.random() < 0.5 else self.rng.choice(cands)
        return self.transform_step(world, target=target)

    def _shared_pair(self, world):
        names = sorted(world.slots)
        ids = {n: mutable_ids(world.slots[n].live) for n in names}
        for i, a in enumerate(names):
            for b in names[i + 1:]:
                if ids[a] and ids[a] & ids[b]:
                    return (a, b)
        return None
