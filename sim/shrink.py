"""Minimisation of a failing recorded step list (DESIGN 2.5): dependency-aware delta
debugging.  A candidate list is admissible when every slot a step refers to has been
written by an earlier step; it is accepted when replaying it fails with the same
invariant."""
from __future__ import annotations

import copy


def _admissible(steps):
    written = set()
    for i, st in enumerate(steps):
        for key in ("a", "b", "src"):
            if key in st and st[key] not in written:
                return False
        if st.get("dst") is not None:
            written.add(st["dst"])
        if "same_answer_as" in st:
            j = st["same_answer_as"]
            if not (0 <= j < i):
                return False
        if "expect" in st and not (0 <= st["expect"]["ref"] < i):
            return False
    return True


def _renumber(steps, kept_indices):
    """Re-point same_answer_as after steps were dropped (drop the expectation when its
    referent is gone)."""
    pos = {old: new for new, old in enumerate(kept_indices)}
    out = []
    for st in steps:
        st = dict(st)
        if "same_answer_as" in st:
            needs = [st["same_answer_as"]] + list(st.get("needs", []))
            if all(n in pos for n in needs):
                st["same_answer_as"] = pos[st["same_answer_as"]]
                st["needs"] = [pos[n] for n in st.get("needs", [])]
            else:
                # the expectation only holds with the whole inverse pair in place
                return None
        if "expect" in st:
            needs = [st["expect"]["ref"]] + list(st.get("needs", []))
            if all(n in pos for n in needs):
                st["expect"] = dict(st["expect"], ref=pos[st["expect"]["ref"]])
                st["needs"] = [pos[n] for n in st.get("needs", [])]
            else:
                return None
        out.append(st)
    return out


def minimise(steps, fails, max_tests=400):
    """`fails(candidate_steps) -> bool`.  Returns a (locally) minimal failing list."""
    steps = [dict(s) for s in steps]
    tests = 0
    index = list(range(len(steps)))

    def candidate(keep):
        sub = [steps[i] for i in keep]
        sub = _renumber(sub, keep)
        return sub

    # 1. cut everything after the failing step is implicit (replay stops there).
    # 2. ddmin over steps
    chunk = max(1, len(index) // 2)
    while chunk >= 1 and tests < max_tests:
        changed = False
        start = 0
        while start < len(index) and tests < max_tests:
            keep = index[:start] + index[start + chunk:]
            if keep and len(keep) < len(index):
                cand = candidate(keep)
                if cand is not None and _admissible(cand):
                    tests += 1
                    if fails(cand):
                        index = keep
                        changed = True
                        continue
            start += chunk
        if not changed:
            chunk //= 2
    steps = candidate(index)
    # 3. simplify oracle flags / faults that are not needed
    for i in range(len(steps)):
        for key in ("repeat", "drop", "t2", "t1"):
            if tests >= max_tests:
                break
            if steps[i].get(key):
                cand = copy.deepcopy(steps)
                if key == "drop":
                    del cand[i][key]
                else:
                    cand[i][key] = False
                tests += 1
                if fails(cand):
                    steps = cand
    return steps, tests
