"""Self-tests of the machinery (DESIGN 8): determinism and sensitivity.

./check selftest-determinism   same (property, seed, run) triples executed in separate
                               interpreters, at two worker counts and two hash seeds; logs diffed
./check selftest-mutants       each mutant of selftest/mutants.py is applied to a scratch copy
                               of /repo/src; the owning check must report a violation, the
                               unmodified copy must pass
"""
from __future__ import annotations

import json
import os
import shutil
import subprocess
import sys
import tempfile
import time

VERIF = os.path.dirname(os.path.dirname(os.path.abspath(__file__)))


def main(what, args):
    if what == "selftest-determinism":
        return determinism(args)
    if what == "selftest-mutants":
        return mutants(args)
    print("unknown selftest", what)
    return 2


# ------------------------------------------------------------------ determinism
def determinism(args):
    from . import main as M

    t0 = time.time()
    M.assert_repo_tree()
    per_prop = args.runs or 70
    seeds = [args.seed, args.seed + 1]
    bad = 0
    compared = 0
    for prop in ("C08", "C09", "C10"):
        for seed in seeds:
            runs = list(range(per_prop))
            # A: forked pool, 16 workers, this interpreter (PYTHONHASHSEED=0)
            resA, errA = M.run_batch(prop, seed, runs, args.jobs)
            digA = {r["run"]: r["digest"] for r in resA}
            # B: one worker
            sub = runs[: max(8, per_prop // 5)]
            resB, errB = M.run_batch(prop, seed, sub, 1)
            digB = {r["run"]: r["digest"] for r in resB}
            # C: new interpreters, same hash seed; D: new interpreters, other hash seed
            digC, errC = M.restart_digests(prop, seed, runs, args.jobs, 0)
            digD, errD = M.restart_digests(prop, seed, runs, args.jobs, 987654321 + seed)
            for e in errA + errB + errC + errD:
                print("HARNESS-ERROR", e)
                bad += 1
            for run in runs:
                compared += 1
                variants = {"fork16": digA.get(run), "new-hash0": digC.get(run), "new-hashX": digD.get(run)}
                if run in digB:
                    variants["fork1"] = digB[run]
                if len(set(variants.values())) != 1 or None in variants.values():
                    bad += 1
                    print(f"NON-DETERMINISTIC {prop} seed={seed} run={run}: {variants}")
    # C11: event streams of the catalogue are reproducible across interpreters
    code = ("import sys, json, hashlib; sys.path.insert(0, %r); from sim import c11; "
            "out={}; \n"
            "for c in c11.catalogue():\n"
            "    r=c11.count_pass(c,'structural'); out[c['name']]=[r['count'], hashlib.sha256(repr(r['trace']).encode()).hexdigest(), json.dumps(r['answer'][1])]\n"
            "print(json.dumps(out))" % VERIF)
    outs = []
    for hs in ("0", "424242"):
        env = dict(os.environ)
        env["PYTHONHASHSEED"] = hs
        p = subprocess.run([sys.executable, "-W", "ignore", "-c", code], env=env, capture_output=True, text=True)
        if p.returncode != 0:
            print("HARNESS-ERROR c11 determinism child:", p.stderr[-400:])
            bad += 1
            continue
        outs.append(json.loads(p.stdout))
    if len(outs) == 2:
        for name in outs[0]:
            compared += 1
            if outs[0][name] != outs[1].get(name):
                bad += 1
                print(f"NON-DETERMINISTIC C11 case {name}: {outs[0][name][:2]} vs {outs[1].get(name, [None])[:2]}")
    print(f"selftest-determinism: {compared} comparisons, {bad} mismatches, {time.time() - t0:.1f}s")
    return 0 if bad == 0 else 2


# ------------------------------------------------------------------ mutants
def mutants(args):
    sys.path.insert(0, os.path.join(VERIF, "selftest"))
    import mutants as MU  # noqa: E402

    only = os.environ.get("MUTANTS")
    only = set(only.split(",")) if only else None
    src_root = os.environ.get("SHAPEPY_SRC", "/repo/src")
    base = tempfile.mkdtemp(prefix="shapepy-mutants-")
    results = []
    t0 = time.time()
    try:
        todo = [m for m in MU.MUTANTS if only is None or m["id"] in only]
        # unmodified copy must pass (control)
        for m in ([{"id": "control", "property": p, "edits": []} for p in ("C08", "C09", "C10", "C11")]
                  if only is None else []) + todo:
            scratch = os.path.join(base, m["id"])
            shutil.copytree(src_root, os.path.join(scratch, "src"),
                            ignore=shutil.ignore_patterns("__pycache__"))
            ok_apply = True
            for (fname, old, new) in m["edits"]:
                path = os.path.join(scratch, "src", "shapepy", fname)
                s = open(path).read()
                if s.count(old) != 1:
                    print(f"MUTANT {m['id']}: pattern not found exactly once in {fname} ({s.count(old)})")
                    ok_apply = False
                    break
                open(path, "w").write(s.replace(old, new))
            if not ok_apply:
                results.append((m["id"], m["property"], "apply-failed", 0))
                shutil.rmtree(scratch, ignore_errors=True)
                continue
            env = dict(os.environ)
            env["SHAPEPY_SRC"] = os.path.join(scratch, "src")
            env["PYTHONPATH"] = env["SHAPEPY_SRC"]
            env.pop("SHAPEPY_VERIF_REEXEC", None)
            env["VERIF_NO_EVIDENCE"] = "1"
            env["VERIF_REPLAY_DIR"] = os.path.join(scratch, "replays")
            t1 = time.time()
            cmd = [os.path.join(VERIF, "check"), m["property"], "--tier", "quick"]
            if m.get("runs"):
                cmd += ["--runs", str(m["runs"])]
            p = subprocess.run(cmd, env=env, capture_output=True, text=True, cwd=VERIF)
            dt = time.time() - t1
            viol = [l for l in p.stdout.splitlines() if l.startswith("VIOLATION")]
            detail = [l for l in p.stdout.splitlines() if l.startswith("  ") and "replay in" not in l][:1]
            if m["id"] == "control":
                status = "pass" if p.returncode == 0 and not viol else f"CONTROL-FAILED exit {p.returncode}"
            else:
                status = "killed" if p.returncode == 1 and viol else f"SURVIVED exit {p.returncode}"
            results.append((m["id"], m["property"], status, dt))
            print(f"{m['id']:28s} {m['property']} {status:10s} {dt:6.1f}s {detail[0][:150] if detail else ''}")
            sys.stdout.flush()
            shutil.rmtree(scratch, ignore_errors=True)
    finally:
        shutil.rmtree(base, ignore_errors=True)
    surv = [r for r in results if r[2] not in ("killed", "pass")]
    print(f"selftest-mutants: {len(results)} runs, {len(surv)} not as expected, {time.time() - t0:.1f}s")
    out = os.path.join(VERIF, "selftest", "last_mutant_run.json")
    json.dump([{"id": a, "property": b, "status": c, "wall_s": round(d, 1)} for a, b, c, d in results],
              open(out, "w"), indent=1)
    return 0 if not surv else 2
