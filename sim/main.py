"""Entry point of every check:  ./check <C08|C09|C10|C11|selftest-...> [options]

exit 0  the property held on everything explored (KNOWN-FINDING lines allowed)
exit 1  a violation that is not a listed known finding: 'VIOLATION property=<id> replay=<path>'
exit 2  the harness itself failed (never a verdict)
"""
from __future__ import annotations

import argparse
import faulthandler
import hashlib
import json
import multiprocessing
import os
import subprocess
import sys
import time
import traceback
from concurrent.futures import ProcessPoolExecutor, as_completed

VERIF = os.path.dirname(os.path.dirname(os.path.abspath(__file__)))
PY = sys.executable

# runs per tier (history checks); sized from measured costs, see DESIGN 4.x 'Cost'
RUNS = {
    "C08": {"quick": 1600, "thorough": 48000},
    "C09": {"quick": 1920, "thorough": 48000},
    "C10": {"quick": 800, "thorough": 16000},
}
RESTART_EVERY = {"quick": 8, "thorough": 2}
TASK_WALL = 900  # seconds, backstop per chunk of runs


def _env_int(name, default):
    try:
        return int(os.environ.get(name, default))
    except ValueError:
        return default


def assert_repo_tree():
    import shapepy

    path = os.path.realpath(shapepy.__file__)
    want = os.environ.get("SHAPEPY_SRC", "/repo/src")
    if not path.startswith(os.path.realpath(want) + os.sep):
        print(f"HARNESS-ERROR shapepy imported from {path}, expected under {want}")
        sys.exit(2)
    return path


# ---------------------------------------------------------------- workers
def _worker_init():
    faulthandler.enable()


def _run_chunk(prop, seed, runs, force):
    from . import runner

    faulthandler.dump_traceback_later(TASK_WALL, exit=True)
    out = []
    try:
        for run in runs:
            t0 = time.time()
            res = runner.run_history(prop, seed, run, force)
            res["wall"] = time.time() - t0
            out.append(res)
    finally:
        faulthandler.cancel_dump_traceback_later()
    return out


def _digest_chunk(prop, seed, runs, force):
    """Used by the restart fault / determinism self-test: digests only."""
    from . import runner

    faulthandler.dump_traceback_later(TASK_WALL, exit=True)
    try:
        return [(run, runner.run_history(prop, seed, run, force)["digest"]) for run in runs]
    finally:
        faulthandler.cancel_dump_traceback_later()


def run_batch(prop, seed, runs, jobs, force=None, chunk=4):
    """Fan run indices out to `jobs` forked workers; results in run-index order."""
    ctx = multiprocessing.get_context("fork")
    chunks = [runs[i:i + chunk] for i in range(0, len(runs), chunk)]
    results = {}
    errors = []
    with ProcessPoolExecutor(max_workers=jobs, mp_context=ctx, initializer=_worker_init) as ex:
        futs = {ex.submit(_run_chunk, prop, seed, c, force): c for c in chunks}
        for fut in as_completed(futs):
            c = futs[fut]
            try:
                for res in fut.result():
                    results[res["run"]] = res
            except Exception as e:  # noqa: BLE001 - dead worker, wall backstop ...
                errors.append(f"runs {c}: {type(e).__name__}: {e}")
    return [results[r] for r in runs if r in results], errors


def restart_digests(prop, seed, runs, jobs, hashseed, force=None):
    """The same runs in *new interpreters* started with another PYTHONHASHSEED."""
    if not runs:
        return {}, []
    code = (
        "import sys, json; sys.path.insert(0, %r); from sim import main; "
        "main._restart_child()" % VERIF
    )
    env = dict(os.environ)
    env["PYTHONHASHSEED"] = str(hashseed)
    jobs = max(1, min(jobs, len(runs)))
    per = (len(runs) + jobs - 1) // jobs
    procs = []
    for i in range(0, len(runs), per):
        part = runs[i:i + per]
        p = subprocess.Popen([PY, "-W", "ignore", "-c", code], env=env, stdin=subprocess.PIPE,
                             stdout=subprocess.PIPE, stderr=subprocess.PIPE, text=True)
        p.stdin.write(json.dumps({"prop": prop, "seed": seed, "runs": part, "force": force}))
        p.stdin.close()
        procs.append((p, part))
    out, errors = {}, []
    for p, part in procs:
        try:
            data = p.stdout.read()
            p.wait(timeout=TASK_WALL)
            if p.returncode != 0:
                errors.append(f"restart child for runs {part[:3]}.. exit {p.returncode}: {p.stderr.read()[-500:]}")
                continue
            for run, dig in json.loads(data):
                out[run] = dig
        except Exception as e:  # noqa: BLE001
            errors.append(f"restart child: {type(e).__name__}: {e}")
    return out, errors


def _restart_child():
    req = json.loads(sys.stdin.read())
    assert_repo_tree()
    res = []
    runs = req["runs"]
    for i in range(0, len(runs), 4):  # the wall-clock backstop is per small group of runs
        res.extend(_digest_chunk(req["prop"], req["seed"], runs[i:i + 4], req["force"]))
    sys.stdout.write(json.dumps(res))


# ---------------------------------------------------------------- replay files
def replay_dir():
    d = os.environ.get("VERIF_REPLAY_DIR") or os.path.join(VERIF, "replays")
    os.makedirs(d, exist_ok=True)
    return d


def write_replay(prop, seed, run, steps, violation, cfg=None, extra=None):
    rdir = replay_dir()
    path = os.path.join(rdir, f"{prop}-{seed}-{run}.json")
    doc = {
        "property": prop, "seed": seed, "run": run,
        "python": sys.version.split()[0],
        "kind": "history",
        "cfg": cfg, "steps": steps, "violation": violation,
    }
    if extra:
        doc.update(extra)
    with open(path, "w") as f:
        json.dump(doc, f, indent=1)
    return path


def replay_in_fresh_process(path):
    """Replays a file in a new interpreter; returns (exit code, stdout)."""
    p = subprocess.run([PY, "-W", "ignore", os.path.join(VERIF, "check.py"), "replay", "--replay", path],
                       capture_output=True, text=True, timeout=TASK_WALL)
    return p.returncode, p.stdout + p.stderr


def cmd_replay(path):
    from . import runner

    doc = json.load(open(path))
    if doc.get("kind") == "c11":
        from . import c11

        return c11.replay(doc)
    res = runner.replay_steps(doc["property"], doc["steps"])
    want = doc.get("violation") or {}
    got = res["violation"]
    if res["error"]:
        print("HARNESS-ERROR during replay:\n" + res["error"])
        return 2
    if got is None:
        print(f"replay of {path}: no violation (recorded: {want.get('invariant')})")
        return 0
    same = got["invariant"] == want.get("invariant") and got["step"] == want.get("step")
    print(f"replay of {path}: {got['invariant']} at step {got['step']}: {got['details']}")
    print("REPRODUCED" if same else f"DIFFERENT from recorded {want.get('invariant')} at step {want.get('step')}")
    print(f"VIOLATION property={doc['property']} replay={path}")
    return 1


# ---------------------------------------------------------------- known findings
def load_known():
    path = os.path.join(VERIF, "known_findings.json")
    if not os.path.exists(path):
        return {"findings": [], "fixed": []}
    return json.load(open(path))


def known_match(known, prop, violation, steps):
    """A violation is a listed known finding iff a finding of the same property names the
    same invariant and the same failing call (op, operand regime) -- or the same witness."""
    if violation is None:
        return None
    failing = steps[violation["step"]] if violation["step"] < len(steps) else {}
    for f in known.get("findings", []):
        if f.get("property") != prop:
            continue
        m = f.get("match")
        if not m:
            continue
        if m.get("invariant") != violation["invariant"]:
            continue
        if "op" in m and failing.get("op") not in m["op"]:
            continue
        if "details_contains" in m and m["details_contains"] not in violation["details"]:
            continue
        return f
    return None


# ---------------------------------------------------------------- history checks
def triage(prop, seed, results, tier):
    """Match violating runs against the known findings, minimise and write replay files for
    the first unlisted ones.  Returns (violating, unlisted, known_hits, output lines)."""
    from . import runner, shrink

    known = load_known()
    viol = [r for r in results if r["violation"]]
    new_viol, known_hits = [], {}
    for r in viol:
        f = known_match(known, prop, r["violation"], r["steps"])
        if f is None:
            new_viol.append(r)
        else:
            known_hits.setdefault(f["id"], []).append(r)
    out_lines = []
    replay_paths = []
    for r in new_viol[:3]:
        inv = r["violation"]["invariant"]

        def fails(cand, inv=inv):
            res = runner.replay_steps(prop, cand)
            return bool(res["violation"]) and res["violation"]["invariant"] == inv

        steps = r["steps"][: r["violation"]["step"] + 1]
        try:
            small, ntests = shrink.minimise(steps, fails, max_tests=150 if tier == "quick" else 400)
        except Exception:  # noqa: BLE001
            small, ntests = steps, 0
        final = runner.replay_steps(prop, small)
        v = final["violation"] or r["violation"]
        if not final["violation"]:
            small = steps
        path = write_replay(prop, seed, r["run"], small, v, r["cfg"],
                            {"original_steps": len(r["steps"]), "shrink_tests": ntests})
        code, _out = replay_in_fresh_process(path)
        reproduced = code == 1
        replay_paths.append(path)
        out_lines.append(f"  run {r['run']}: {v['invariant']} at step {v['step']}: {v['details'][:300]}")
        out_lines.append(f"  replay in a fresh process: {'reproduced' if reproduced else 'NOT reproduced (exit %d)' % code}")
        out_lines.append(f"VIOLATION property={prop} replay={path}")
    return viol, new_viol, known_hits, out_lines


def history_check(prop, tier, seed, jobs, nruns=None, force=None, only=None):
    from . import runner, shrink

    t_start = time.time()
    src = assert_repo_tree()
    n = nruns or RUNS[prop][tier]
    runs = list(range(n))
    if only is not None:
        runs = list(only)
        n = len(runs)
    print(f"SEED {seed} property={prop} tier={tier} runs={n} jobs={jobs} shapepy={src}")
    sys.stdout.flush()
    results, errors = run_batch(prop, seed, runs, jobs, force)
    harness_errors = list(errors)
    for r in results:
        if r["error"]:
            harness_errors.append(f"run {r['run']}: {r['error'][-800:]}")
    if len(results) != n:
        harness_errors.append(f"only {len(results)} of {n} runs returned")
    # restart fault (C10): same runs, new interpreter, other hash seed
    restart_checked = 0
    restart_mismatch = []
    if prop == "C10" and results:
        every = RESTART_EVERY[tier]
        sel = [r["run"] for r in results if not r["error"]
               and (r["run"] % every == (seed % every) or r["cfg"].get("congruent"))]
        hashseed = 1 + (seed * 7919 + 12345) % 4294967290
        digs, rerr = restart_digests(prop, seed, sel, jobs, hashseed, force)
        harness_errors.extend(rerr)
        by_run = {r["run"]: r for r in results}
        for run in sel:
            if run in digs:
                restart_checked += 1
                if digs[run] != by_run[run]["digest"]:
                    restart_mismatch.append(run)
    # violations
    known = load_known()
    viol, new_viol, known_hits, out_lines = triage(prop, seed, results, tier)
    for run in restart_mismatch[:3]:
        r = next(x for x in results if x["run"] == run)
        path = write_replay(prop, seed, run, r["steps"],
                            {"invariant": "restart-digest", "class": "C10", "step": len(r["steps"]) - 1,
                             "details": "answer log differs in a new interpreter with another PYTHONHASHSEED"},
                            r["cfg"])
        out_lines.append(f"VIOLATION property={prop} replay={path}")
    for fid, hits in known_hits.items():
        f = next(x for x in known["findings"] if x["id"] == fid)
        out_lines.append(f"KNOWN-FINDING: property={prop} {fid}: {f['title']} (re-found in {len(hits)} runs, e.g. run {hits[0]['run']})")
    # witnesses of listed findings
    wit_lines, wit_viol = run_witnesses(prop, known)
    out_lines.extend(wit_lines)
    wall = time.time() - t_start
    evidence = build_history_evidence(prop, tier, seed, results, viol, new_viol, restart_checked,
                                      restart_mismatch, wall, harness_errors, known_hits)
    write_evidence(prop, evidence)
    for line in out_lines:
        print(line)
    print(f"{prop}: {len(results)} runs, {evidence['coverage']['steps']} steps, "
          f"{evidence['coverage']['library_calls']} library calls, {len(viol)} violating runs "
          f"({len(new_viol)} unlisted), {len(harness_errors)} harness errors, {wall:.1f}s")
    if harness_errors:
        for e in harness_errors[:5]:
            print("HARNESS-ERROR", e)
        return 2
    if new_viol or restart_mismatch or wit_viol:
        return 1
    return 0


def run_witnesses(prop, known):
    """Every listed finding of this property that carries a witness history is re-executed:
    while it still fails the way it is listed -> KNOWN-FINDING line; if it fails
    differently -> VIOLATION; if it passes -> nothing."""
    from . import runner

    lines, viol = [], False
    for f in known.get("findings", []):
        if f.get("property") != prop or "witness" not in f:
            continue
        res = runner.replay_steps(prop, f["witness"]["steps"])
        if res["error"]:
            lines.append(f"HARNESS-ERROR witness {f['id']}: {res['error'][-300:]}")
            continue
        v = res["violation"]
        if v is None:
            continue
        if v["invariant"] == f["witness"]["invariant"]:
            lines.append(f"KNOWN-FINDING: property={prop} {f['id']}: {f['title']}")
        else:
            path = write_replay(prop, 0, f"witness-{f['id']}", f["witness"]["steps"], v)
            lines.append(f"VIOLATION property={prop} replay={path}")
            viol = True
    return lines, viol


# ---------------------------------------------------------------- evidence
def build_history_evidence(prop, tier, seed, results, viol, new_viol, restart_checked,
                           restart_mismatch, wall, harness_errors, known_hits):
    stats = {}
    states = set()
    steps = calls = events = 0
    nontrivial = set()
    for r in results:
        for k, v in r["stats"].items():
            stats[k] = stats.get(k, 0) + v
        states.update(r["states"])
        steps += len(r["steps"])
        calls += r["library_calls"]
        events += r["events"]
        # a run is non-trivial when it executed at least one checked non-build step
        if any(s["op"] != "build" for s in r["steps"]):
            nontrivial.add(hashlib.sha256(json.dumps(r["steps"], sort_keys=True).encode()).hexdigest())
    faults_fired = {k.split(":", 1)[1]: v for k, v in sorted(stats.items()) if k.startswith("fault:")}
    probes = {k.split(":", 1)[1]: v for k, v in sorted(stats.items()) if k.startswith("probe:")}
    oracles = {k.split(":", 1)[1]: v for k, v in sorted(stats.items()) if k.startswith("oracle:")}
    stepkinds = {k.split(":", 1)[1]: v for k, v in sorted(stats.items()) if k.startswith("step:")}
    positions = {k.split(":", 1)[1]: v for k, v in sorted(stats.items()) if k.startswith("position:")}
    samples = []
    for r in results[:2]:
        samples.append({"run": r["run"], "cfg": r["cfg"], "steps": r["steps"][:12]})
    per_hour = 3600.0 / wall if wall > 0 else 0.0
    level = "exploration"
    return {
        "property_id": prop,
        "tier": tier,
        "seed": seed,
        "level": level,
        "coverage": {
            "evaluations": len(results),
            "distinct_nontrivial": len(nontrivial),
            "rule": "one evaluation = one seeded history (swarm configuration + 3..14 adaptive steps on a heap "
                    "of live objects); distinct = distinct recorded step lists (sha256), non-trivial = contains "
                    "at least one non-build step; 'states' counts distinct (step kind, operand kinds, numeric "
                    "class, already-split?, fault) tuples reached",
            "samples": samples,
            "states": len(states),
            "steps": steps,
            "library_calls": calls,
            "monitored_interpreter_events": events,
            "runs_per_hour": round(len(results) * per_hour),
            "steps_per_hour": round(steps * per_hour),
            "simulated_time": "logical only: steps and monitored interpreter events (the library has no clock)",
            "faults_fired": faults_fired,
            "oracle_evaluations": oracles,
            "reach_probes": probes,
            "step_kinds": stepkinds,
            "operand_positions": positions,
            "restart_runs_compared": restart_checked,
            "restart_mismatches": len(restart_mismatch),
            "violating_runs": len(viol),
            "unlisted_violating_runs": len(new_viol),
            "known_findings_refound": {k: len(v) for k, v in known_hits.items()},
            "harness_errors": len(harness_errors),
            "real_vs_stub": "real: shapepy (tree under /repo/src), numpy, pynurbs, matplotlib(Agg); "
                            "stub: none; simulator-owned: step schedule, fault injection, sys.monitoring callbacks",
            "exhaustive": False,
        },
        "assumptions": [
            "public constructors (from_ctrlpoints, SimpleShape, ConnectedShape, DisjointShape) are trusted to rebuild a value (C16/C17 not claimed)",
            "the kernel in sim/kernel.py is the trusted geometric base",
            "binary steps compared against freshly built operands only for rational polygons in general position (DESIGN 4.3)",
        ],
        "wall_s": round(wall, 2),
        "violations": len(new_viol) + len(restart_mismatch),
    }


def write_evidence(prop, evidence):
    if os.environ.get("VERIF_NO_EVIDENCE") == "1":  # self-tests against scratch trees
        return None
    os.makedirs(os.path.join(VERIF, "evidence"), exist_ok=True)
    path = os.path.join(VERIF, "evidence", f"{prop}.json")
    with open(path, "w") as f:
        json.dump(evidence, f, indent=1, default=str)
    return path


# ---------------------------------------------------------------- main
def main(argv=None):
    ap = argparse.ArgumentParser()
    ap.add_argument("what")
    ap.add_argument("--tier", default=os.environ.get("VERIF_TIER", "quick"), choices=["quick", "thorough"])
    ap.add_argument("--replay")
    ap.add_argument("--runs", type=int)
    ap.add_argument("--only", help="comma separated run indices (debugging / triage)")
    ap.add_argument("--jobs", type=int, default=_env_int("VERIF_JOBS", os.cpu_count() or 4))
    ap.add_argument("--seed", type=int, default=_env_int("VERIF_SEED", 0))
    args = ap.parse_args(argv)
    try:
        if args.what == "replay" or args.replay:
            return cmd_replay(args.replay)
        if args.what in ("C08", "C09", "C10"):
            only = [int(x) for x in args.only.split(",")] if args.only else None
            return history_check(args.what, args.tier, args.seed, args.jobs, args.runs, only=only)
        if args.what == "C11":
            from . import c11

            return c11.check(args.tier, args.seed, args.jobs)
        if args.what.startswith("selftest"):
            from . import selftest

            return selftest.main(args.what, args)
        print(f"unknown check {args.what}")
        return 2
    except SystemExit:
        raise
    except Exception:  # noqa: BLE001
        print("HARNESS-ERROR\n" + traceback.format_exc())
        return 2
