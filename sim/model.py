"""Model values: reading them off live objects, rebuilding fresh objects from them,
and the exact affine model of the in-place transformations (DESIGN 2.1, 4.2)."""
from __future__ import annotations

import math
from fractions import Fraction

import numpy as np

import shapepy
from shapepy import (
    ConnectedShape,
    DisjointShape,
    EmptyShape,
    JordanCurve,
    SimpleShape,
    WholeShape,
)
from shapepy.shape import BaseShape

from . import kernel

RAT = (int, Fraction)


# ------------------------------------------------------------------ reading
def _num(x):
    """Plain python number carrying exactly the library's value (np.float64 -> float
    keeps the bits; type differences are tracked separately by `bits`)."""
    if isinstance(x, Fraction):
        return x
    if isinstance(x, (bool, np.bool_)):
        return int(x)
    if isinstance(x, (int, np.integer)):
        return int(x)
    if isinstance(x, (float, np.floating)):
        return float(x)
    return x


def chain_of(jordan):
    return tuple(
        tuple((_num(p[0]), _num(p[1])) for p in seg.ctrlpoints) for seg in jordan.segments
    )


def value(obj):
    """Model value of a live object, through public attributes only."""
    if isinstance(obj, EmptyShape):
        return "E"
    if isinstance(obj, WholeShape):
        return "W"
    if isinstance(obj, JordanCurve):
        return ("J", chain_of(obj))
    if isinstance(obj, SimpleShape):
        return ("S", chain_of(obj.jordans[0]))
    if isinstance(obj, ConnectedShape):
        return ("C", tuple(value(s) for s in obj.subshapes))
    if isinstance(obj, DisjointShape):
        return ("D", tuple(value(s) for s in obj.subshapes))
    raise TypeError(f"not a shapepy object: {type(obj)!r}")


def _bit(x):
    if isinstance(x, Fraction):
        n, d = x.numerator, x.denominator
        # a malformed Fraction (float components) is part of the bits
        return ("q", type(n).__name__, repr(n), type(d).__name__, repr(d))
    if isinstance(x, (bool, np.bool_)):
        return ("b", bool(x))
    if isinstance(x, (int, np.integer)):
        return ("i", int(x))
    if isinstance(x, (float, np.floating)):
        return ("f", float(x).hex())
    return ("?", type(x).__name__, repr(x))


def bits(obj):
    """Bit-exact fingerprint of a live object's geometry (value + numeric types)."""
    if isinstance(obj, EmptyShape):
        return "E"
    if isinstance(obj, WholeShape):
        return "W"
    if isinstance(obj, JordanCurve):
        return (
            "J",
            tuple(
                tuple((_bit(p[0]), _bit(p[1])) for p in seg.ctrlpoints)
                for seg in obj.segments
            ),
        )
    if isinstance(obj, SimpleShape):
        return ("S", bits(obj.jordans[0])[1])
    if isinstance(obj, ConnectedShape):
        return ("C", tuple(bits(s) for s in obj.subshapes))
    if isinstance(obj, DisjointShape):
        return ("D", tuple(bits(s) for s in obj.subshapes))
    raise TypeError(f"not a shapepy object: {type(obj)!r}")


def value_bits(val):
    """bits() of a model value (for comparing a live object with a predicted value)."""
    if isinstance(val, str):
        return val
    tag, body = val
    if tag in ("S", "J"):
        return (tag, tuple(tuple((_bit(x), _bit(y)) for x, y in seg) for seg in body))
    return (tag, tuple(value_bits(s) for s in body))


def well_formed_numbers(val):
    """No malformed Fractions (float numerator/denominator), no nan/inf."""
    for c in kernel.coords_of(val):
        if isinstance(c, Fraction):
            if not isinstance(c.numerator, int) or not isinstance(c.denominator, int):
                return False
        elif isinstance(c, float):
            if math.isnan(c) or math.isinf(c):
                return False
        elif not isinstance(c, int):
            return False
    return True


# ------------------------------------------------------------------ rebuilding
def fresh(val):
    """A new library object built from a model value with public constructors only."""
    if val == "E":
        return EmptyShape()
    if val == "W":
        return WholeShape()
    tag, body = val
    if tag == "J":
        return JordanCurve.from_ctrlpoints([[tuple(p) for p in seg] for seg in body])
    if tag == "S":
        return SimpleShape(
            JordanCurve.from_ctrlpoints([[tuple(p) for p in seg] for seg in body])
        )
    subs = [fresh(s) for s in body]
    if tag == "C":
        return ConnectedShape(subs)
    if tag == "D":
        return DisjointShape(subs)
    raise ValueError(tag)


# ------------------------------------------------------------------ affine model
def map_value(val, fn):
    if isinstance(val, str):
        return val
    tag, body = val
    if tag in ("S", "J"):
        return (tag, tuple(tuple(fn(x, y) for x, y in seg) for seg in body))
    return (tag, tuple(map_value(s, fn) for s in body))


def model_move(val, dx, dy):
    return map_value(val, lambda x, y: (x + dx, y + dy))


def model_scale(val, sx, sy):
    return map_value(val, lambda x, y: (x * sx, y * sy))


def model_rotate(val, angle, degrees=False):
    if degrees:
        angle = angle * math.pi / 180
    angle = float(angle)
    c, s = math.cos(angle), math.sin(angle)
    return map_value(val, lambda x, y: (c * x - s * y, s * x + c * y))


def model_invert(val):
    """Orientation reversal of every chain (SimpleShape.invert / JordanCurve.invert)."""
    if isinstance(val, str):
        return val
    tag, body = val
    if tag in ("S", "J"):
        return (tag, tuple(tuple(reversed(seg)) for seg in reversed(body)))
    return (tag, tuple(model_invert(s) for s in body))


def close_values(a, b, rel, scale=None):
    """Structure identical and every coordinate within rel*scale -> (ok, reason)."""
    if isinstance(a, str) or isinstance(b, str):
        return (a == b), f"{a!r} vs {b!r}"
    if a[0] != b[0]:
        return False, f"kind {a[0]} vs {b[0]}"
    if a[0] in ("S", "J"):
        ca, cb = a[1], b[1]
        if len(ca) != len(cb):
            return False, f"{len(ca)} segments vs {len(cb)}"
        if scale is None:
            scale = max([1.0] + [abs(float(c)) for c in kernel.coords_of(a)])
        for i, (sa, sb) in enumerate(zip(ca, cb)):
            if len(sa) != len(sb):
                return False, f"segment {i}: degree {len(sa)-1} vs {len(sb)-1}"
            for j, (pa, pb) in enumerate(zip(sa, sb)):
                for k in (0, 1):
                    da = float(pa[k]) - float(pb[k])
                    if not abs(da) <= rel * scale:
                        return False, f"segment {i} point {j} coord {k}: {pa[k]!r} vs {pb[k]!r}"
        return True, "ok"
    if len(a[1]) != len(b[1]):
        return False, f"{len(a[1])} subshapes vs {len(b[1])}"
    if scale is None:
        scale = max([1.0] + [abs(float(c)) for c in kernel.coords_of(a)])
    for sa, sb in zip(a[1], b[1]):
        ok, why = close_values(sa, sb, rel, scale)
        if not ok:
            return ok, why
    return True, "ok"


def matches_at_resolution(live_val, pred_val):
    """Exact equality of a live value with a predicted one, up to the library's documented
    resolution: a rational coordinate whose exact denominator exceeds 10**9 may be stored
    as limit_denominator(10**9) of it (Point2D re-normalises a point whenever it is passed
    through Point2D(...)).  Types must agree (no silent float)."""
    if isinstance(live_val, str) or isinstance(pred_val, str):
        return live_val == pred_val
    if live_val[0] != pred_val[0]:
        return False
    if live_val[0] in ("S", "J"):
        if structure(live_val) != structure(pred_val):
            return False
        for sa, sb in zip(live_val[1], pred_val[1]):
            for pa, pb in zip(sa, sb):
                for a, b in zip(pa, pb):
                    if _bit(a) == _bit(b):
                        continue
                    if isinstance(a, RAT) and isinstance(b, RAT) and Fraction(b).denominator > 10**9 \
                            and Fraction(a) == Fraction(b).limit_denominator(10**9):
                        continue
                    return False
        return True
    if len(live_val[1]) != len(pred_val[1]):
        return False
    return all(matches_at_resolution(a, b) for a, b in zip(live_val[1], pred_val[1]))


def structure(val):
    """Kind, number of curves, segments and degrees (what a transformation must keep)."""
    if isinstance(val, str):
        return val
    tag, body = val
    if tag in ("S", "J"):
        return (tag, tuple(len(seg) - 1 for seg in body))
    return (tag, tuple(structure(s) for s in body))


def jsonable(val):
    """Model value -> JSON-serialisable (Fractions as 'n/d' strings, floats as hex)."""
    if isinstance(val, str):
        return val
    tag, body = val
    if tag in ("S", "J"):
        return [tag, [[[num_to_json(x), num_to_json(y)] for x, y in seg] for seg in body]]
    return [tag, [jsonable(s) for s in body]]


def from_jsonable(obj):
    if isinstance(obj, str):
        return obj
    tag, body = obj
    if tag in ("S", "J"):
        return (
            tag,
            tuple(tuple((num_from_json(x), num_from_json(y)) for x, y in seg) for seg in body),
        )
    return (tag, tuple(from_jsonable(s) for s in body))


def num_to_json(x):
    if isinstance(x, bool):
        return x
    if isinstance(x, int):
        return x
    if isinstance(x, Fraction):
        return f"{x.numerator}/{x.denominator}"
    if isinstance(x, float):
        return {"f": x.hex()}
    if isinstance(x, (np.floating,)):
        return {"f": float(x).hex()}
    if isinstance(x, (np.integer,)):
        return int(x)
    raise TypeError(type(x))


def num_from_json(x):
    if isinstance(x, bool):
        return x
    if isinstance(x, int):
        return x
    if isinstance(x, str):
        n, d = x.split("/")
        return Fraction(int(n), int(d))
    if isinstance(x, dict):
        return float.fromhex(x["f"])
    raise TypeError(type(x))


def is_shape(obj):
    return isinstance(obj, BaseShape)


def is_defined(obj):
    return isinstance(obj, (SimpleShape, ConnectedShape, DisjointShape))
